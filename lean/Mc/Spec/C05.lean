import Mc.Apply
/-
  C05 - declarative laws of the three-way merge, as decidable predicates.
  They are (a) the statements the theorems in Props/C05.lean are about and
  (b) the oracle the driver evaluates on the *real* outputs of `Merge`.
  None of them mentions how `merge` computes its result; the only shared notion is
  `detectListMapKey` (what counts as a name-keyed list).
-/
namespace Mc.C05

/-- key values of a list under a conventional key are pairwise distinct -/
def uniqUnder (mk : String) (xs : List J) : Bool :=
  let ks := xs.map (keyOf mk)
  ks.length == ks.eraseDups.length

def sharedKeys (mks : List String) (xs : List J) : List String :=
  match commonKeys [xs] with
  | some (some ks) => mks.filter (fun k => ks.contains k)
  | _ => []

-- hypothesis of the property: object keys unique, and every list of objects that the
-- merge may treat as a list-map has unique key values under **every** conventional key
-- shared by its items (Go maps cannot hold duplicates; duplicates in lists are outside C05)
mutual
def hypJ (mks : List String) : J → Bool
  | .obj kvs => uniqB kvs && hypFields mks kvs
  | .arr xs => (sharedKeys mks xs).all (fun mk => uniqUnder mk xs) && hypList mks xs
  | _ => true
def hypFields (mks : List String) : KVs → Bool
  | [] => true
  | (_, v) :: rest => hypJ mks v && hypFields mks rest
def hypList (mks : List String) : List J → Bool
  | [] => true
  | x :: rest => hypJ mks x && hypList mks rest
end

-- merge-key values are scalars (the model's `stringMergeKey` covers those)
mutual
def scalarKeys (mks : List String) : J → Bool
  | .obj kvs => kvs.all (fun kv => !(mks.contains kv.1) || !(kv.2.isObj || kv.2.isArr)) && scalarKeysF mks kvs
  | .arr xs => scalarKeysL mks xs
  | _ => true
def scalarKeysF (mks : List String) : KVs → Bool
  | [] => true
  | (_, v) :: rest => scalarKeys mks v && scalarKeysF mks rest
def scalarKeysL (mks : List String) : List J → Bool
  | [] => true
  | x :: rest => scalarKeys mks x && scalarKeysL mks rest
end

-- "every field present in desired has the desired value"; `null` in desired is no opinion
mutual
def contains : J → J → Bool
  | _, .null => true
  | .obj rs, .obj ds => containsFields rs ds
  | .arr rs, .arr ds =>
      eqvList rs ds || (ds.all J.isObj && containsItems rs ds)
  | r, d => !d.isObj && !d.isArr && r.eqv d
termination_by structural _ d => d
def containsFields (rs : KVs) : KVs → Bool
  | [] => true
  | (k, v) :: rest =>
      (match lookup k rs with
       | some w => contains w v
       | none => false) && containsFields rs rest
termination_by structural ds => ds
def containsItems (rs : List J) : List J → Bool
  | [] => true
  | it :: rest => rs.any (fun r => contains r it) && containsItems rs rest
termination_by structural ds => ds
end

end Mc.C05

namespace Mc.C05

def findItem (mk : String) (k : String) (xs : List J) : Option J := xs.find? (fun it => keyOf mk it == k)

/-- the desired item that wins for key `k` (Go: later duplicates overwrite earlier ones) -/
def desItem (mk : String) (k : String) (ds : List J) : Option J := ds.reverse.find? (fun it => keyOf mk it == k)

-- "removed" and "preserved", pointwise on keys (objects) and on merge-key values (list-maps):
--   * a key of `l` that `d` no longer has is absent from `r`;
--   * every other key of `o` is in `r`, untouched when `d` does not mention it;
--   * `r` has no key that neither `o` nor `d` has;
--   * list-map items that only `o` has keep their relative order, new items follow in `d`'s order.
-- Structural on `o` (the observed object bounds the recursion).
mutual
def laws (mks : List String) (r o : J) (l : Option J) (d : J) : Bool :=
  match o with
  | .obj os =>
      (d.isObj || d.isNull) &&
      (match r with
       | .obj rs =>
           lawsFields mks rs os (lastObj l) d.fields &&
           rs.all (fun kv => hasKey kv.1 os || hasKey kv.1 d.fields) &&
           d.fields.all (fun kv => hasKey kv.1 os ||
              (match lookup kv.1 rs with | some w => w.eqv kv.2 | none => false))
       | _ => false)
  | .arr xs =>
      (d.isArr || d.isNull) &&
      (match detectListMapKey mks [xs, lastArr l, d.items] with
       | none => r.eqv d
       | some mk =>
         match r with
         | .arr rs =>
           let lastKeys := (lastArr l).map (keyOf mk)
           let desKeys := d.items.map (keyOf mk)
           let survive := fun (it : J) => !(lastKeys.contains (keyOf mk it) && !desKeys.contains (keyOf mk it))
           let oKeys := xs.map (keyOf mk)
           let newKeys := (desKeys.filter (fun k => !oKeys.contains k)).eraseDups
           -- order: surviving observed items first (observed order), then new items (desired order)
           (rs.map (keyOf mk) == ((xs.filter survive).map (keyOf mk)) ++ newKeys) &&
           lawsItems mks mk rs xs (lastArr l) d.items survive &&
           newKeys.all (fun k => match findItem mk k rs, desItem mk k d.items with
                                  | some ri, some di => ri.eqv di
                                  | _, _ => false)
         | _ => false)
  | _ => r.eqv d
termination_by structural o

def lawsFields (mks : List String) (rs : KVs) (os : KVs) (ls ds : KVs) : Bool :=
  match os with
  | [] => true
  | (k, ov) :: rest =>
      (match lookup k ds with
       | some dv =>
           (match lookup k rs with
            | some rv => laws mks rv ov (lookup k ls) dv
            | none => false)
       | none =>
           if hasKey k ls then !hasKey k rs
           else (match lookup k rs with | some rv => rv.eqv ov | none => false)) &&
      lawsFields mks rs rest ls ds
termination_by structural os

def lawsItems (mks : List String) (mk : String) (rs : List J) (xs : List J) (ls ds : List J) (survive : J → Bool) : Bool :=
  match xs with
  | [] => true
  | it :: rest =>
      (if survive it then
         let k := keyOf mk it
         match findItem mk k rs with
         | none => false
         | some ri =>
           match desItem mk k ds with
           | none => ri.eqv it
           | some di => laws mks ri it (findItem mk k ls) di
       else true) &&
      lawsItems mks mk rs rest ls ds survive
termination_by structural xs
end

-- the clash clause: a non-null desired value of another JSON kind than a composite observed
-- value, at a path both reach through objects, must make the merge fail
mutual
def clash : J → J → Bool
  | .obj os, .obj ds => clashFields os ds
  | .obj _, .null => false
  | .obj _, _ => true
  | .arr _, .arr _ => false      -- items are matched by key; clashes inside list-maps are not claimed here
  | .arr _, .null => false
  | .arr _, _ => true
  | _, _ => false
termination_by structural _ d => d
def clashFields (os : KVs) : KVs → Bool
  | [] => false
  | (k, dv) :: rest =>
      (match lookup k os with
       | some ov => clash ov dv
       | none => false) || clashFields os rest
termination_by structural ds => ds
end

-- the converse, deliberately coarse: observed and desired "agree in shape" when no pair of values that the merge could
-- ever bring together (same key of two objects; any two items of two lists) differs in JSON kind, nulls aside. When they
-- agree in shape the merge has no clash to report - whatever the last-applied record looks like - and must succeed.
def kindOf : J → Nat
  | .null => 0 | .bool _ => 1 | .num _ => 2 | .str _ => 3 | .arr _ => 4 | .obj _ => 5

mutual
def shapeMismatch : J → J → Bool
  | .obj os, .obj ds => shapeMismatchFields os ds
  | .arr xs, .arr ys => shapeMismatchItems xs ys
  | .null, _ => false
  | _, .null => false
  | o, d => kindOf o != kindOf d && (kindOf o ≥ 4 || kindOf d ≥ 4)
termination_by structural _ d => d
def shapeMismatchFields (os : KVs) : KVs → Bool
  | [] => false
  | (k, dv) :: rest =>
      (match lookup k os with
       | some ov => shapeMismatch ov dv
       | none => false) || shapeMismatchFields os rest
termination_by structural ds => ds
def shapeMismatchItems (xs : List J) : List J → Bool
  | [] => false
  | y :: rest => xs.any (fun x => shapeMismatch x y) || shapeMismatchItems xs rest
termination_by structural ys => ys
end

end Mc.C05
