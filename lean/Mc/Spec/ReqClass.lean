import Mc.Sync.Full
/- Classes of requests that the order/guard theorems talk about. -/
namespace Mc

def Req.verb? : Req → Option Verb
  | .api v _ _ _ => some v
  | .hook _ _ => none

def Req.target? : Req → Option Target
  | .api _ t _ _ => some t
  | .hook _ _ => none

def Req.body : Req → J
  | .api _ _ b _ => b
  | .hook _ q => q

def Req.opts : Req → J
  | .api _ _ _ o => o
  | .hook _ _ => .null

def Verb.isWrite : Verb → Bool
  | .get => false
  | _ => true

def Req.isHook : Req → Bool | .hook _ _ => true | _ => false

def Req.isWrite (r : Req) : Bool := match r.verb? with | some v => v.isWrite | none => false

def Req.isRevision (r : Req) : Bool :=
  match r.target? with
  | some t => t.group == revGroup && t.resource == revResource
  | none => false

def Req.onTarget (t : Target) (r : Req) : Bool := r.target? == some t

/-- a write to a ControllerRevision -/
def Req.isRevWrite (r : Req) : Bool := r.isRevision && r.isWrite

/-- a request about a dependent object: not the parent, not a ControllerRevision, not a hook -/
def Req.isChild (parentT : Target) (r : Req) : Bool :=
  !r.isHook && !r.onTarget parentT && !r.isRevision

/-- create, delete, apply or JSON-patch of a child: the verbs only `ManageChildren` uses -/
def Req.isChildMutation (parentT : Target) (r : Req) : Bool :=
  r.isChild parentT && (r.verb? == some .create || r.verb? == some .delete || r.verb? == some .apply || r.verb? == some .patchRemove)

def Req.isChildWrite (parentT : Target) (r : Req) : Bool := r.isChild parentT && r.isWrite

def Req.isChildCreate (parentT : Target) (r : Req) : Bool := r.isChild parentT && r.verb? == some .create

def Resp.isErr : Resp → Bool
  | .err _ => true
  | _ => false

end Mc
