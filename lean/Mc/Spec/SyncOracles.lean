import Mc.Spec.Trace
/-
  Property oracles over one recorded sync. `none` = the property's clauses hold on this trace,
  `some clause` = the clause that failed. Each is the decidable, per-trace form of the statement in
  /verif/properties.jsonl; the theorems in Props/ are about the model's own traces.
-/
namespace Mc
open SyncCase

def firstSome {α : Type} (xs : List α) (f : α → Option String) : Option String := xs.findSome? f

def check (b : Bool) (msg : String) : Option String := if b then none else some msg

def orElse (a : Option String) (b : Unit → Option String) : Option String :=
  match a with
  | some x => some x
  | none => b ()

/-- is there an object with this identity and UID in what the listers returned? -/
def cachedDependent (s : SyncCase) (r : Rec) : Option J :=
  let pool := if r.isRevision then s.cache.revisions else (s.cache.children.lookup r.resource).getD []
  pool.find? (fun o => getName o == r.name && (getNamespace o == r.ns || r.ns == ""))

-- ---------------------------------------------------------------------------------------------
-- C02  only objects the parent controls are ever modified or deleted

def selectorOfCase (s : SyncCase) : Option Selector :=
  match s.parent with
  | some p => if s.composite then (match s.cfg.makeSelector p with | .ok sel => some sel | .error _ => none) else none
  | none => none

def c02Write (s : SyncCase) (r : Rec) : Option String :=
  let uid := s.parentUID
  if !r.ok || !r.isWrite || !s.isDependent r then none else
  match r.verb with
  | "create" =>
      check (nControllers r.body == 1 && controllerUID r.body == uid)
        s!"create of {r.resource} {r.name} is not born with exactly one controller reference to the parent"
  | "delete" =>
      let pu := strAt r.opts ["preconditions", "uid"]
      orElse (check (pu != "") s!"delete of {r.resource} {r.name} carries no UID precondition") fun _ =>
      orElse (check ((cachedDependent s r).map getUID == some pu) s!"delete of {r.resource} {r.name} is not conditioned on the UID of the observed object") fun _ =>
      orElse (check (r.isRevision || strAt r.opts ["propagationPolicy"] == "Background") s!"delete of {r.resource} {r.name} without background propagation") fun _ =>
      match r.pre with
      | some p =>
          -- observed as ours: in the cache snapshot, or adopted earlier in this very sync
          let adoptedHere := s.calls.any (fun a => a.idx < r.idx && a.verb == "update" && a.ok && a.resource == r.resource && a.name == r.name &&
              a.ns == r.ns && controllerUID a.body == uid)
          let observedOurs := (cachedDependent s r).map controllerUID == some uid || adoptedHere
          orElse (check (controllerUID p == uid)
            (if observedOurs then
               -- recorded finding F-C02-2: the precondition is the UID only, so an ownership edit made after the object was observed goes unnoticed
               s!"[F-C02-2] accepted delete of {r.resource} {r.name}: controlled by the parent when observed, by someone else when deleted"
             else s!"accepted delete of {r.resource} {r.name}, which the parent does not control")) fun _ =>
          check (s.composite || r.isRevision || (annotationsOf p).lookup Generated.decoratorAnnotation == some s.dcfg.name)
            s!"accepted delete of attachment {r.name} lacking the decorator's marker"
      | none => none
  | "update" | "patchRemove" | "apply" =>
      match r.pre with
      | none => check (r.verb == "apply" && nControllers r.body == 1 && controllerUID r.body == uid)
                  s!"{r.verb} created {r.resource} {r.name} without a controller reference to the parent"
      | some p =>
          -- a write that leaves the object exactly as it was modifies nothing
          if (r.post.map (fun q => q.eqv p)).getD false then none
          else if controllerUID p == uid then
            check (s.composite || r.isRevision || (annotationsOf p).lookup Generated.decoratorAnnotation == some s.dcfg.name)
              s!"accepted {r.verb} of attachment {r.name} lacking the decorator's marker"
          else if r.verb == "update" && s.composite && (controllerOf p).isNone && onlyOwnerRefsChanged p r.body
                  && controllerUID r.body == uid then
            -- the adoption edit: allowed for a matching orphan only
            -- "matches" refers to the observed version of the orphan (DESIGN §3, how the statements are read)
            match selectorOfCase s with
            | some sel => check (sel.matches (labelsOf ((cachedDependent s r).getD p))) s!"adopted {r.resource} {r.name}, an orphan that does not match the selector"
            | none => some s!"adopted {r.resource} {r.name} without a usable selector"
          else if r.verb == "apply" then
            -- recorded finding F-C02-1: server-side apply is sent for every desired name, also onto an object that was never claimed
            some s!"[F-C02-1] accepted apply of {r.resource} {r.name}, which the parent does not control"
          else some s!"accepted {r.verb} of {r.resource} {r.name}, which the parent does not control"
  | _ => none

/-- the only write to an object the parent does not control yet is the adoption of the orphan that was *observed*:
    an accepted ownership edit that adds the parent's reference lands on the object with the observed UID -/
def c02AdoptionTarget (s : SyncCase) (r : Rec) : Option String :=
  if !r.ok || !s.isDependent r || r.verb != "update" then none else
  match r.pre, cachedDependent s r with
  | some p, some o =>
      let uid := s.parentUID
      if !(getOwnerRefs p).any (·.uid == uid) && (getOwnerRefs r.body).any (·.uid == uid) then
        check (getUID o == getUID p) s!"the parent's reference was written into {r.name} (UID {getUID p}), which is not the orphan that was observed (UID {getUID o})"
      else none
  | _, _ => none

def oracleC02 (s : SyncCase) : Option String :=
  orElse (firstSome s.calls (c02Write s)) fun _ => firstSome s.calls (c02AdoptionTarget s)

-- ---------------------------------------------------------------------------------------------
-- C04  adoption, release and creation obey the ControllerRef rules

def refsKeptExcept (pre body : J) (uid : String) : Bool :=
  ((getOwnerRefs pre).filter (·.uid != uid)) == ((getOwnerRefs body).filter (·.uid != uid))

def c04Write (s : SyncCase) (r : Rec) : Option String :=
  let uid := s.parentUID
  if !r.isWrite || !s.isDependent r || r.verb != "update" then none else
  match r.pre with
  | none => none
  | some p =>
    if !onlyOwnerRefsChanged p r.body then none else
    -- an ownership edit (attempted or accepted)
    orElse (check (!r.ok || refsKeptExcept p r.body uid) s!"ownership edit of {r.name} touched references that belong to others") fun _ =>
    orElse (check (!r.ok || (r.post.map nControllers).getD 0 ≤ 1) s!"{r.name} ended up with two controller references") fun _ =>
    let oursBefore := (getOwnerRefs p).any (·.uid == uid)
    let oursAfter := (getOwnerRefs r.body).any (·.uid == uid)
    if !oursBefore && oursAfter then
      -- adoption
      orElse (check (!isDeleting p || !r.ok) s!"adopted {r.name}, which is being deleted") fun _ =>
      orElse (check ((controllerOf p).isNone || !r.ok) s!"adopted {r.name}, which another owner controls") fun _ =>
      -- the object that receives the reference is the orphan that was observed (same UID), not a same-named successor
      -- (whether it matches the selector is decided on the observed object, as everywhere in Kubernetes)
      orElse (match cachedDependent s r with
        | some o => check (!r.ok || getUID o == getUID p) s!"adopted {r.name} with UID {getUID p}, but the orphan that was observed has UID {getUID o}"
        | none => none) fun _ =>
      -- preceded by a live read of the parent showing the same UID and no deletion timestamp
      let fresh := s.calls.filter (fun g => g.idx < r.idx && g.verb == "get" && s.isParentTarget g && g.ok)
      check (fresh.any (fun g => getUID g.resp == uid && !isDeleting g.resp))
        s!"adoption of {r.name} without a fresh read showing the parent alive with the same UID"
    else if oursBefore && !oursAfter then
      -- release
      orElse (check (!(s.parent.map isDeleting).getD false) s!"released {r.name} although the parent is being deleted") fun _ =>
      -- judged on accepted writes only: a refused one changed nothing, and its pre-state (what the server held when it
      -- refused) is not the object the edit was computed from
      check (!r.ok || (getOwnerRefs r.body).length + 1 == (getOwnerRefs p).length || (getOwnerRefs r.body).length == ((getOwnerRefs p).filter (·.uid != uid)).length)
        s!"release of {r.name} removed more than the parent's own reference"
    else none

/-- a desired child whose labels would not satisfy the selector: nothing may be written for this answer -/
def c04LabelInvariant (s : SyncCase) : Option String :=
  if !s.composite then none else
  match s.mainHook, selectorOfCase s with
  | some h, some sel =>
      -- with selector generation the selector is controller-uid = <parent UID>, and that label is added to a desired
      -- child that lacks it: only a child carrying another value fails to match
      let bad := if s.cfg.generateSelector then
          (s.respChildren h).any (fun d => match lookup "controller-uid" ((getLabels d).getD []) with
            | some v => !(v == J.str s.parentUID)
            | none => false)
        else (s.respChildren h).any (fun d => !sel.matches (labelsOf d))
      if bad && s.cfg.anyRolling == false then
        orElse (check (s.outcome == "error") "a desired child not matching the parent's selector was not rejected") fun _ =>
        check (!(s.calls.any (fun r => r.idx > h.idx && s.isDependent r && r.isWrite)))
          "a child was written although a desired child does not match the parent's selector"
      else none
  | _, _ => none

def oracleC04 (s : SyncCase) : Option String :=
  orElse (firstSome s.calls (c04Write s)) fun _ => c04LabelInvariant s

-- ---------------------------------------------------------------------------------------------
-- C06  each child type is changed only by the method its update strategy allows

def methodOfCase (s : SyncCase) (group kind : String) : String :=
  if s.composite then getMethod s.cfg.children group kind else getMethod s.dcfg.attachments group kind

/-- objects of a `children`/`attachments` JSON map, with their group text and relative name -/
def flatHookObjects (m : J) : List (String × String × J) :=
  m.fields.flatMap (fun g => g.2.fields.map (fun no => (g.1, no.1, no.2)))

def sameObject (a b : J) : Bool :=
  getKind a == getKind b && apiGroup (getAPIVersion a) == apiGroup (getAPIVersion b) && getName a == getName b &&
  getNamespace a == getNamespace b

/-- the hook's desired children as metacontroller compares them: namespace defaulted to the parent's, plus what it adds
    itself (the decorator's marker; with selector generation the controller-uid label) -/
def desiredCompared (s : SyncCase) (h : Rec) : List J :=
  let parentNs := getNamespace (s.hookParent h)
  let desired := (s.respChildren h).map (fun d => if getNamespace d == "" && parentNs != "" then
      (match setNestedField d (.str parentNs) ["metadata", "namespace"] with | .ok x => x | .error _ => d) else d)
  if s.composite then
    (if s.cfg.generateSelector then desired.map (fun d =>
        let lbl := (getLabels d).getD []
        if hasKey "controller-uid" lbl then d
        else setStringMapAt d ["metadata", "labels"] (some (setKey "controller-uid" (.str s.parentUID) lbl))) else desired)
  else desired.map (stampMarker s.dcfg)

def c06 (s : SyncCase) : Option String :=
  -- dynamic apply only; for rolling strategies the desired state per child comes from several hook calls
  if s.composite && (s.cfg.ssa || s.cfg.anyRolling) then none else
  match s.mainHook with
  | none => none
  | some h =>
    let desired := desiredCompared s h
    let observed := (flatHookObjects (s.hookChildren h)).map (·.2.2)
    -- a desired child without a usable apiVersion/kind/name is filed under a group of its own by the code; not judged here
    if desired.any (fun d => getAPIVersion d == "" || getKind d == "" || getName d == "") then none else
    let later := s.calls.filter (fun r => r.idx > h.idx && s.isDependent r && r.isWrite && !r.isRevision)
    let writesOn := fun (o : J) => later.filter (fun r => r.name == getName o && (r.ns == getNamespace o || r.ns == "") &&
        (match s.composite, s.cfg.children.find? (fun c => c.resource == r.resource), s.dcfg.attachments.find? (fun c => c.resource == r.resource) with
         | true, some c, _ => c.kind == getKind o
         | false, _, some c => c.kind == getKind o
         | _, _, _ => false))
    firstSome observed (fun o =>
      let ws := writesOn o
      match desired.find? (sameObject o) with
      | none =>
          -- no longer desired: deleted (background), unless pending deletion
          if isDeleting o then check ws.isEmpty s!"{getName o} is pending deletion and undesired, yet was written"
          else check (ws.all (fun r => r.verb == "delete")) s!"undesired child {getName o} received a write other than delete"
      | some d =>
          let (g, _) := parseAPIVersion (getAPIVersion o)
          let method := methodOfCase s g (getKind o)
          match applyUpdate Generated.knownMergeKeys Generated.objectMetaSystemFields o d with
          | .error _ => check ws.isEmpty s!"{getName o}: the merge failed, yet the child was written"
          | .ok n =>
            if n.eqv o then check ws.isEmpty s!"{getName o} already matches its desired state, yet was written ({(ws.map (·.verb))})"
            else if isDeleting o then check ws.isEmpty s!"{getName o} is pending deletion, yet was written"
            else match method with
              | "OnDelete" => check ws.isEmpty s!"{getName o} (OnDelete) was written"
              | "Recreate" | "RollingRecreate" =>
                  orElse (check (ws.all (fun r => r.verb == "delete")) s!"{getName o} ({method}) received {(ws.map (·.verb))}: only delete is allowed") fun _ =>
                  -- ... and it is deleted: in a sync that ended without an error and in which no request failed, the delete was sent
                  -- (a parent pending deletion may be under the dying-parent guard of C10: no child is written then)
                  check (s.outcome != "ok" || isDeleting (s.hookParent h) || s.calls.any (fun r => !r.isHook && !r.ok) || !ws.isEmpty)
                    s!"{getName o} differs from its desired state under {method}, the sync ended without an error, yet no delete was sent for it"
              | "InPlace" | "RollingInPlace" =>
                  orElse (check (ws.all (fun r => r.verb == "update")) s!"{getName o} ({method}) received {(ws.map (·.verb))}: only update is allowed") fun _ =>
                  check (s.outcome != "ok" || isDeleting (s.hookParent h) || s.calls.any (fun r => !r.isHook && !r.ok) || !ws.isEmpty)
                    s!"{getName o} differs from its desired state under {method}, the sync ended without an error, yet no update was sent for it"
              | _ => check ws.isEmpty s!"{getName o} (unknown method {method}) was written")

def oracleC06 (s : SyncCase) : Option String := c06 s

-- ---------------------------------------------------------------------------------------------
-- C09  rollout intent is persisted before acting

def oracleC09 (s : SyncCase) : Option String :=
  if !s.composite then none else
  let revWrites := s.calls.filter (fun r => r.isRevision && r.isWrite && r.isContentWrite)
  let childWrites := s.calls.filter (fun r => s.isDependent r && !r.isRevision && r.isWrite && r.isContentWrite)
  orElse (check (revWrites.all (fun rw => childWrites.all (fun cw => rw.idx < cw.idx)))
    "a child was written before a ControllerRevision write of the same sync") fun _ =>
  match revWrites.find? (fun rw => !rw.ok) with
  | some f => check (childWrites.all (fun cw => cw.idx < f.idx)) s!"a ControllerRevision write failed ({f.verb} {f.name}) and a child was still written"
  | none => none

-- ---------------------------------------------------------------------------------------------
-- C10  finalizer: added first, honoured on deletion, removed only when finalized

def c10Hook (s : SyncCase) (h : Rec) : Option String :=
  if h.hook == "customize" then none else
  let p := s.hookParent h
  let unmatched := if s.composite then s.cfg.doNotMatch p else !s.dcfg.selMatches p
  let wantFinalize := s.finalizeEnabled && (isDeleting p || unmatched)
  orElse (check ((h.hook == "finalize") == wantFinalize) s!"hook {h.hook} called, but finalize is expected exactly when enabled and (deleting or unmatched)") fun _ =>
  check (h.hookReq.getBool "finalizing" == wantFinalize) "the finalizing flag does not match the hook that was called"

def oracleC10 (s : SyncCase) : Option String :=
  let fin := s.finalizerName
  orElse (firstSome s.hooks (c10Hook s)) fun _ =>
  -- without a finalize hook a leftover finalizer is removed: after an error-free sync the live parent (same UID) no longer carries it
  orElse (match s.parent, s.parentAfter with
    | some p, some q =>
        -- (or the controller did get its removal accepted and somebody else put the finalizer back afterwards)
        let removedOnce := s.calls.any (fun r => s.isParentTarget r && r.verb == "update" && r.ok &&
          (match r.post with | some x => !hasFinalizer x fin | none => false))
        check (s.finalizeEnabled || !hasFinalizer p fin || s.outcome != "ok" || getUID q != getUID p || s.calls.any (·.injected) || !hasFinalizer q fin || removedOnce)
          "no finalize hook is configured, yet the controller's leftover finalizer is still on the parent after the sync"
    | _, _ => none) fun _ =>
  -- an accepted parent update changes no finalizer but the controller's own
  orElse (firstSome s.calls (fun r =>
    if !(s.isParentTarget r) || r.verb != "update" || !r.ok then none else
    match r.pre with
    | none => none
    | some p => check (((getFinalizers r.body).filter (· != fin)) == ((getFinalizers p).filter (· != fin)))
        s!"a parent update changed finalizers that belong to others: the server held {getFinalizers p}, the write set {getFinalizers r.body}")) fun _ =>
  -- parent writes touching our finalizer
  orElse (firstSome s.calls (fun r =>
    if !(s.isParentTarget r) || r.verb != "update" then none else
    match r.pre with
    | none => none
    | some p =>
      let before := hasFinalizer p fin
      let after := hasFinalizer r.body fin
      if !before && after then
        orElse (check (!isDeleting p || !r.ok) "the finalizer was added to a parent that is already being deleted") fun _ =>
        check s.finalizeEnabled "the finalizer was added although no finalize hook is configured"
      else if before && !after then
        if s.finalizeEnabled then
          -- only after every hook of this sync answered finalized
          let answers := (s.hooks.filter (fun h => h.hook != "customize" && h.idx < r.idx))
          -- with several live parent revisions all must agree; a revision that is drained and deleted in this very sync
          -- no longer counts (its answer is not part of the aggregated result)
          let base := (s.mainHook.map s.hookParent).getD .null
          let prunedParents := (s.calls.filter (fun d => d.isRevision && d.verb == "delete" && d.ok && d.idx < r.idx)).filterMap (fun d =>
            (s.cache.revisions.find? (fun rev => getName rev == d.name)).bind (fun rev =>
              (applyPatch base (rev.getD "parentPatch") s.cfg.effectiveFieldPaths).toOption))
          let counted := answers.filter (fun h => !(prunedParents.any (fun p => (s.hookParent h).eqv p)))
          check (!answers.isEmpty && counted.all (fun h => match h.hookBody with | some b => b.getBool "finalized" | none => false))
            "the finalizer was removed without an answer finalized:true"
        else none
      else none)) fun _ =>
  match s.mainHook with
  | none => none
  | some h =>
    let p := s.hookParent h
    let later := s.calls.filter (fun r => s.isDependent r && r.isWrite)
    orElse (check (!(later.any (fun r => r.verb == "create" && r.ok && !r.isRevision)) || !s.finalizeEnabled || hasFinalizer p fin || isDeleting p)
      "a child was created although the finalizer is not yet on the parent") fun _ =>
    let guard := isDeleting p && (!s.finalizeEnabled || !hasFinalizer p fin || (getFinalizers p).any (fun f => gcFinalizers.contains f))
    check (!guard || !(later.any (fun r => !r.isRevision)))
      "a parent pending deletion (no finalize hook, finalizer gone, or GC finalizer) had a child written"

-- ---------------------------------------------------------------------------------------------
-- C11  parent status = hook status + observedGeneration; nothing else is touched

def stripStatus (o : J) : J :=
  removeNestedField (removeNestedField (.obj (eraseKey "status" o.fields)) ["metadata", "resourceVersion"]) ["metadata", "generation"]

def oracleC11 (s : SyncCase) : Option String :=
  if !s.composite then none else
  match s.mainHook with
  | none => none
  | some h =>
    let statusWrites := s.calls.filter (fun r => s.isParentTarget r && r.idx > h.idx &&
        (r.verb == "updateStatus" || (r.verb == "update" && !s.cfg.parentHasStatus)))
    let sentGen := getGeneration (s.hookParent h)
    let hookStatus : KVs := match h.hookBody with | some b => (b.getD "status").fields | none => []
    -- the end state: a sync that reconciled its children without an error leaves the live parent (same UID, not replaced
    -- meanwhile) with the hook's status and the generation that was sent - whether or not it had to write
    orElse (match s.parentAfter with
      | some q =>
          if s.outcome == "ok" && getUID q == s.parentUID && (h.hookBody.map (fun b => !(b.getD "status").isNull)).getD false
              && s.calls.all (fun r => !r.injected) then
            let st := q.getD "status"
            orElse (check (st.get? "observedGeneration" == some (.num sentGen))
              "after the sync the parent's observedGeneration is not the generation of the parent sent to the hook") fun _ =>
            check (hookStatus.all (fun kv => kv.1 == "observedGeneration" || kv.1 == "conditions" || (match st.get? kv.1 with | some v => v.eqv kv.2 | none => false)))
              "after the sync the parent's status is not the status the hook returned"
          else none
      | none => none) fun _ =>
    firstSome statusWrites (fun r =>
      orElse (check ((r.verb == "updateStatus") == s.cfg.parentHasStatus) "parent status written through the wrong endpoint") fun _ =>
      let st := r.body.getD "status"
      orElse (check (st.get? "observedGeneration" == some (.num sentGen)) "observedGeneration is not the generation of the parent sent to the hook") fun _ =>
      orElse (check (hookStatus.all (fun kv => kv.1 == "observedGeneration" || kv.1 == "conditions" || (match st.get? kv.1 with | some v => v.eqv kv.2 | none => false)))
        "the status written differs from the status the hook returned") fun _ =>
      orElse (check (st.fields.all (fun kv => kv.1 == "observedGeneration" || kv.1 == "conditions" || hasKey kv.1 hookStatus))
        "the status written has fields the hook did not return") fun _ =>
      match r.pre, r.post with
      | some p, some q =>
          orElse (check (!r.ok || getUID p == s.parentUID) "status written to a same-named parent with a different UID") fun _ =>
          orElse (check (!r.ok || (stripStatus p).eqv (stripStatus q)) "the status write altered something other than status") fun _ =>
          check (!r.ok || !((p.getD "status").eqv st)) "status written although it was already equal"
      | _, _ => none)

-- ---------------------------------------------------------------------------------------------
-- C12  failures are retried, benign races tolerated

/-- is this failed request one of the documented benign races (given how the same target is treated afterwards)? -/
def benignFailure (s : SyncCase) (r : Rec) : Bool :=
  if r.ok then true else
  let retried := s.calls.any (fun g => g.idx > r.idx && g.verb == r.verb && g.resource == r.resource && g.name == r.name && g.ns == r.ns)
  match r.verb, r.reason with
  | "delete", "NotFound" => !r.isRevision
  | "create", "AlreadyExists" => !r.isRevision
  | "update", "NotFound" => !r.isRevision
  | "update", "Conflict" => !r.isRevision && (retried || true)
  | "updateStatus", "NotFound" | "updateStatus", "Conflict" => true
  | "get", "NotFound" =>
      -- a vanished child during adopt/release, or the parent itself during the status write
      !(s.isParentTarget r) || s.calls.any (fun h => h.isHook && h.idx < r.idx)
  -- releasing a child or ControllerRevision that is "already gone" (410) is tolerated like 404: the object was
  -- observed as ours, so the read-modify-write is a release
  | "get", "Gone" | "update", "Gone" =>
      !(s.isParentTarget r) && (cachedDependent s r).map controllerUID == some s.parentUID
  | _, _ => false

/-- one bad child blocks nothing: once the children phase of a composite sync (dynamic apply, no rolling kind) has started -
    some child request was sent after the hook answered - every desired child that the hook was not shown as observed
    gets its create request, whatever happened to the other children -/
def c12Independence (s : SyncCase) : Option String :=
  if !s.composite || s.cfg.ssa || s.cfg.anyRolling then none else
  match s.mainHook with
  | none => none
  | some h =>
    let later := s.calls.filter (fun r => r.idx > h.idx && s.isDependent r && !r.isRevision && r.verb != "get")
    if later.isEmpty then none else
    let observed := (flatHookObjects (s.hookChildren h)).map (·.2.2)
    let desired := s.respChildren h
    if desired.any (fun d => getAPIVersion d == "" || getKind d == "" || getName d == "") then none else
    firstSome desired (fun d =>
      if observed.any (fun o => getKind o == getKind d && apiGroup (getAPIVersion o) == apiGroup (getAPIVersion d) && getName o == getName d) then none else
      -- (a desired child under an apiVersion the controller does not declare fails discovery: an error, not a create)
      match s.cfg.children.find? (fun c => c.kind == getKind d && c.apiVersion == getAPIVersion d) with
      | none => none
      | some c => check (later.any (fun r => r.verb == "create" && r.resource == c.resource && r.name == getName d))
          s!"the desired child {getKind d} {getName d} was not observed, other children were written in this sync, yet no create was sent for it")

def oracleC12 (s : SyncCase) : Option String :=
  orElse (check (s.outcome != "panic") "the sync panicked") fun _ =>
  orElse (c12Independence s) fun _ =>
  let hard := s.calls.filter (fun r => !r.isHook && !r.ok && !benignFailure s r)
  orElse (check (hard.isEmpty || s.outcome == "error")
    s!"a request failed for a non-benign reason ({(hard.map (fun r => r.verb ++ " " ++ r.name ++ " " ++ r.reason))}) but the sync did not report an error") fun _ =>
  -- a hook call fails on any status other than 200 (429 is the delayed-requeue answer) or on a body that cannot be decoded
  let undecodable := fun (h : Rec) => h.code == 200 && (match h.hookBody with
    | none => true
    | some b => if h.hook == "customize" then (decodeCustomizeResp b).toOption.isNone
                else if s.composite then (decodeCompResp b).toOption.isNone else (decodeDecResp b).toOption.isNone)
  let hookFail := s.hooks.filter (fun h => (h.code != 200 && h.code != 429) || undecodable h)
  let h429 := s.hooks.filter (fun h => h.code == 429)
  -- parallel per-revision calls: when some fail and another answers 429, which one is reported depends on revision order
  orElse (check (hookFail.isEmpty || !h429.isEmpty || s.outcome == "error") "a hook call failed but the sync did not report an error") fun _ =>
  if !h429.isEmpty && hookFail.isEmpty && hard.isEmpty then
    if s.composite then
      orElse (check (s.outcome == "ok" && !s.after.isEmpty) "a 429 from the hook was not turned into a delayed requeue") fun _ =>
      -- ... after the advertised delay (judged when a single call was answered 429)
      match h429 with
      | [h] => check (s.after.contains (h.hookRetryAfter * 1000))
          s!"the hook answered 429 with Retry-After {h.hookRetryAfter} s, but the parent was requeued after {s.after} ms"
      | _ => none
    else check (s.outcome == "error") "decorator: a 429 from the hook must be reported as an error"
  else none

-- ---------------------------------------------------------------------------------------------
-- C13  malformed hook responses: never a panic; a rejected response causes no child write

def oracleC13 (s : SyncCase) : Option String :=
  orElse (check (s.outcome != "panic") "the sync panicked") fun _ =>
  match s.mainHook with
  | none => none
  | some h =>
    -- "rejected": the sync reports an error and no parent status / children phase evidence exists
    let childWrites := s.calls.filter (fun r => r.idx > h.idx && s.isDependent r && r.isWrite && !r.isRevision)
    let decodeOk := if s.composite then (match h.hookBody with | some b => (decodeCompResp b).toOption.isSome | none => false)
                    else (match h.hookBody with | some b => (decodeDecResp b).toOption.isSome | none => false)
    check (h.code != 200 || decodeOk || childWrites.isEmpty) "a hook response that cannot be decoded was followed by child writes"

-- ---------------------------------------------------------------------------------------------
-- C17 (cache part): cached objects are unchanged by the sync

def oracleC17 (s : SyncCase) : Option String := check s.cacheIntact "a cached object was modified by the sync"

end Mc

namespace Mc
open SyncCase

-- ---------------------------------------------------------------------------------------------
-- C03  the hook sees exactly the children the parent owns, in the documented shape

/-- successful ownership edits made before the hook call: (resource, ns, name, ours-after?) -/
def ownershipEdits (s : SyncCase) (before : Nat) : List (String × String × String × Bool) :=
  (s.calls.filter (fun r => r.idx < before && r.verb == "update" && r.ok && s.isDependent r &&
      (match r.pre with | some p => onlyOwnerRefsChanged p r.body | none => false))).map
    (fun r => (r.resource, r.ns, r.name, (getOwnerRefs r.body).any (fun x => x.uid == s.parentUID && x.controller == some true)))

def expectedView (s : SyncCase) (h : Rec) : J :=
  let p := s.hookParent h
  let uid := s.parentUID
  let pns := getNamespace p
  let edits := ownershipEdits s h.idx
  let decl : List ChildRes := if s.composite then s.cfg.children else s.dcfg.attachments
  let sel := selectorOfCase s
  .obj (decl.map (fun ch =>
    let (g, v) := parseAPIVersion ch.apiVersion
    let key := ({ group := g, version := v, kind := ch.kind } : GVK).text
    let pool := (s.cache.children.lookup ch.resource).getD []
    let pool := if pns != "" then pool.filter (fun o => getNamespace o == pns) else pool
    let mine := pool.filter (fun o =>
      let edit := edits.find? (fun e => e.1 == ch.resource && e.2.2.1 == getName o && (e.2.1 == getNamespace o || e.2.1 == ""))
      if s.composite then
        match edit with
        | some e => e.2.2.2                                -- adopted (true) or released (false) in this sync
        | none => controllerUID o == uid && (match sel with | some sl => sl.matches (labelsOf o) | none => false)
      else controllerUID o == uid && (annotationsOf o).lookup Generated.decoratorAnnotation == some s.dcfg.name)
    (key, J.obj (mine.map (fun o => (relativeName pns o, o))))))

def oracleC03 (s : SyncCase) : Option String :=
  firstSome (s.hooks.filter (fun h => h.hook != "customize")) (fun h =>
    let actual := s.hookChildren h
    let expected := expectedView s h
    let names (j : J) := j.canon.fields.map (fun g => (g.1, g.2.fields.map (·.1)))
    let sameNames := names actual == names expected
    orElse (check (actual.eqv expected) (s!"the children map sent to the hook differs from the owned set: sent {names actual} expected {names expected}" ++
      (if sameNames then " (the same objects, but the content of one differs from the object in the cache the sync started from)" else ""))) fun _ =>
    -- namespace defaulting of returned children is visible in the creates: a namespaced child is created in the parent's namespace
    none)

-- ---------------------------------------------------------------------------------------------
-- C16  a decorator changes only labels, annotations, status and finalizer of its target

def strPtrMapOf (j : Option J) : List (String × Option String) :=
  match j with
  | some (.obj kvs) => kvs.filterMap (fun kv => match kv.2 with | .str v => some (kv.1, some v) | .null => some (kv.1, none) | _ => none)
  | _ => []

def mapFollows (name : String) (cached body : List (String × String)) (upd : List (String × Option String)) : Option String :=
  let keys := (cached.map (·.1) ++ body.map (·.1) ++ upd.map (·.1)).eraseDups
  firstSome keys (fun k =>
    match upd.lookup k with
    | some none => check ((body.lookup k).isNone) s!"{name} key {k} was to be deleted but is still there"
    | some (some v) => check (body.lookup k == some v) s!"{name} key {k} does not have the value the hook named"
    | none => check (body.lookup k == cached.lookup k) s!"{name} key {k} was not named by the hook but changed")

def stripDecorated (o : J) : J :=
  let o := J.obj (eraseKey "status" o.fields)
  ["labels", "annotations", "finalizers", "resourceVersion"].foldl (fun acc f => removeNestedField acc ["metadata", f]) o

def oracleC16 (s : SyncCase) : Option String :=
  if s.composite then none else
  match s.mainHook with
  | none =>
      -- no hook call: nothing about the target may be written except by the finalizer phase
      none
  | some h =>
    let cached := s.hookParent h
    let fin := s.dcfg.finalizer.name
    orElse (check (s.dcfg.selMatches cached || hasFinalizer cached fin) "an object matching neither selectors nor carrying the finalizer was decorated") fun _ =>
    match h.hookBody with
    | none => none
    | some resp =>
      match decodeDecResp resp with
      | .error _ => none
      | .ok dr =>
        let writes := s.calls.filter (fun r => r.idx > h.idx && s.isParentTarget r && r.isWrite)
        let (l', lc) := updateStringMap ((getLabels cached).getD []) dr.labels
        let (a', ac) := updateStringMap ((getAnnotations cached).getD []) dr.annotations
        let _ := l'; let _ := a'
        let cachedStatus := cached.get? "status"
        let statusChanged := match dr.status with
          | none => false
          | some st => match cachedStatus with | some (.obj c) => !((J.obj c).eqv (.obj st)) | _ => true
        let wouldChange := lc || ac || statusChanged || (dr.finalized && hasFinalizer cached fin)
        orElse (check (wouldChange || writes.isEmpty) "a request was sent although nothing would change") fun _ =>
        firstSome writes (fun r =>
          if r.verb == "update" then
            let b := r.body
            orElse (mapFollows "label" (labelsOf cached) (labelsOf b) dr.labels) fun _ =>
            orElse (mapFollows "annotation" (annotationsOf cached) (annotationsOf b) dr.annotations) fun _ =>
            orElse (check ((stripDecorated cached).eqv (stripDecorated b)) "the update changed something other than labels, annotations, status and finalizers") fun _ =>
            let wantFins := if dr.finalized then (getFinalizers cached).filter (· != fin) else getFinalizers cached
            orElse (check (getFinalizers b == wantFins) "finalizers of the target changed beyond the decorator's own") fun _ =>
            orElse (match dr.status with
             | none => check (((b.get? "status").getD .null).eqv (cachedStatus.getD .null)) "status changed although the hook returned none"
             | some st => check (((b.get? "status").getD .null).eqv (.obj st)) "status is not what the hook returned") fun _ =>
            -- the same footprint on the live object, for a write the API server accepted (the object the sync holds may be stale)
            (match r.pre, r.post with
             | some p, some q =>
               if !r.ok then none else
               orElse (check ((stripDecorated p).eqv (stripDecorated q)) "an accepted update changed, on the live object, something other than labels, annotations, status and finalizers") fun _ =>
               orElse (mapFollows "label (live object)" (labelsOf p) (labelsOf q) dr.labels) fun _ =>
               orElse (mapFollows "annotation (live object)" (annotationsOf p) (annotationsOf q) dr.annotations) fun _ =>
               check ((getFinalizers q).filter (· != fin) == (getFinalizers p).filter (· != fin)) "an accepted update changed finalizers of the live object that belong to others"
             | _, _ => none)
          else if r.verb == "updateStatus" then
            match r.pre, r.post with
            | some p, some q => check (!r.ok || (stripStatus p).eqv (stripStatus q)) "the status write altered something other than status"
            | _, _ => none
          else none)

end Mc
