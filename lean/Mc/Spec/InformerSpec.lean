import Mc.Informer
/-
  C18 as predicates over an operation history (no state machine): who must receive what, when the underlying
  informer must start and stop, what the reference count must be. `Props/C18.lean` proves the model of
  `Mc/Informer.lean` satisfies them; the driver evaluates them on what the real factory did.
-/
namespace Mc.InfSpec
open Mc.Inf

/-- resource a subscription (numbered in order of `subscribe` operations) was made for -/
def subRes (ops : List Op) (sub : Nat) : Option Nat :=
  ((ops.filterMap (fun o => match o with | Op.subscribe r => some r | _ => none))[sub]?)

/-- index (in `ops`) of the `subscribe` that created subscription `sub` -/
def subIndex (ops : List Op) (sub : Nat) : Option Nat :=
  let idx := (List.range ops.length).filter (fun i => match ops[i]? with | some (Op.subscribe _) => true | _ => false)
  idx[sub]?

/-- a close counts only the first time and only for an existing subscription -/
def effectiveClose (ops : List Op) (i : Nat) : Option Nat :=
  match ops[i]? with
  | some (Op.close sub) =>
      if (subRes (ops.take i) sub).isSome && !((ops.take i).any (fun o => match o with | Op.close s => s == sub | _ => false)) then some sub else none
  | _ => none

/-- open subscriptions on `res` after the first `n` operations -/
def openCount (ops : List Op) (n : Nat) (res : Nat) : Nat :=
  let opened := ((ops.take n).filter (fun o => match o with | Op.subscribe r => r == res | _ => false)).length
  let closed := ((List.range n).filter (fun i => match effectiveClose ops i with
    | some sub => subRes ops sub == some res
    | none => false)).length
  opened - closed

/-- number of informer starts for `res` within the first `n` operations: a subscribe that finds no open subscription -/
def starts (ops : List Op) (n : Nat) (res : Nat) : Nat :=
  ((List.range n).filter (fun i => match ops[i]? with
    | some (Op.subscribe r) => r == res && openCount ops i res == 0
    | _ => false)).length

/-- the informer generation a subscription is attached to -/
def genOfSub (ops : List Op) (sub : Nat) : Option Nat :=
  match subIndex ops sub, subRes ops sub with
  | some i, some res => some (starts ops (i + 1) res)
  | _, _ => none

def mustStart (ops : List Op) (i : Nat) : Option Nat :=
  match ops[i]? with
  | some (Op.subscribe r) => if openCount ops i r == 0 then some r else none
  | _ => none

def mustStop (ops : List Op) (i : Nat) : Option Nat :=
  match effectiveClose ops i with
  | some sub => match subRes ops sub with
      | some res => if openCount ops (i + 1) res == 0 then some res else none
      | none => none
  | none => none

/-- handler `h`, added through `sub` at operation `j`, is still registered just before operation `i` -/
def registeredAt (ops : List Op) (sub h j i : Nat) : Bool :=
  j < i && (match ops[j]? with | some (Op.addHandler s h') => s == sub && h' == h | _ => false) &&
  !((List.range i).any (fun k => k > j && (match ops[k]? with | some (Op.removeHandlers s) => s == sub | _ => false)))

/-- handlers that must receive an event on `res` delivered at operation `i` -/
def receivers (ops : List Op) (i : Nat) (res : Nat) : List Nat :=
  if openCount ops i res == 0 then [] else
  let gen := starts ops i res
  (List.range i).filterMap (fun j => match ops[j]? with
    | some (Op.addHandler sub h) =>
        if subRes ops sub == some res && genOfSub ops sub == some gen && registeredAt ops sub h j i then some h else none
    | _ => none)

/-- API-server contents of `res` after the first `n` operations -/
def contents (initial : List (Nat × List String)) (ops : List Op) (n : Nat) (res : Nat) : List String :=
  (ops.take n).foldl (fun cur o => match o with
    | Op.event r typ name => if r != res then cur else if typ == "delete" then cur.filter (· != name) else if cur.contains name then cur else cur ++ [name]
    | _ => cur) ((initial.lookup res).getD [])

/-- the deliveries operation `i` must cause -/
def expected (initial : List (Nat × List String)) (ops : List Op) (i : Nat) : List (Nat × String × String) :=
  match ops[i]? with
  | some (Op.event res typ name) => (receivers ops i res).map (fun h => (h, (if typ == "create" then "add" else typ), name))
  | some (Op.addHandler sub h) =>
      match subRes ops sub with
      | some res =>
          -- replay of everything cached; for a subscription whose informer is the running one the cache is the server's content
          if openCount ops i res > 0 && genOfSub ops sub == some (starts ops i res) then (contents initial ops i res).map (fun n => (h, "resync", n)) else []
      | none => []
  | _ => []

end Mc.InfSpec
