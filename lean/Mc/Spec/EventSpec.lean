import Mc.Events
/-
  C14 - declarative specification of the triggers, written as a predicate "is this parent woken by this event?"
  over the parents in the cache, without following the control flow of the handlers. `Props/C14.lean` proves that
  the handler models of `Mc/Events.lean` enqueue exactly the parents that satisfy it; the driver evaluates it on
  the queue contents of the real handlers.
-/
namespace Mc.EvSpec

/-- the parent is one the controller cares about: it matches the controller's selector or still carries its finalizer -/
def admitted (c : Cfg) (p : J) : Bool := !c.doNotMatch p || hasFinalizer p c.finalizer.name

/-- a cache resync replay: update with unchanged resourceVersion -/
def isReplay (ev : Event) : Bool := ev.type == .update && getResourceVersion ev.old == getResourceVersion ev.obj

/-- the controller owner reference `ref`, carried by an object in namespace `childNs`, denotes parent `p` -/
def refersTo (c : Cfg) (childNs : String) (ref : OwnerRef) (p : J) : Bool :=
  apiGroup ref.apiVersion == c.parentGroup && ref.kind == c.parentKind && ref.name == getName p &&
  getNamespace p == (if c.parentNamespaced then childNs else "") && getUID p == ref.uid

/-- `p`'s own selector is usable, not empty, and selects the orphan -/
def wantsOrphan (c : Cfg) (p child : J) : Bool :=
  (if c.parentNamespaced && getNamespace child != "" then getNamespace p == getNamespace child else true) &&
  (match c.makeSelector p with
   | .ok sel => !sel.empty && sel.matches (labelsOf child)
   | .error _ => false)

/-- parent events: the object itself, unless the update is one the controller was told to ignore -/
def parentWoken (c : Cfg) (ev : Event) : Bool :=
  admitted c ev.obj && !(ev.type == .update && c.ignoreStatusChanges && statusOnlyChange ev.old ev.obj)

/-- child events -/
def childWakes (c : Cfg) (ev : Event) (p : J) : Bool :=
  !isReplay ev && admitted c p &&
  (match controllerOf ev.obj with
   | some ref => refersTo c (getNamespace ev.obj) ref p
   | none => ev.type != .delete && !isDeleting ev.obj && wantsOrphan c p ev.obj)

/-- related-object events: some rule of the parent's customize answer selects the old or the new state -/
def relatedWakes (c : Cfg) (answer : J → Option J) (ev : Event) (p : J) : Bool :=
  !isReplay ev && admitted c p &&
  (match answer p with
   | none => false
   | some body => match decodeCustomizeResp body with
       | .error _ => false
       | .ok rules =>
         let states := if ev.type == .update then [ev.old, ev.obj] else [ev.obj]
         rulesMatch c.parentNamespaced c.related p rules states)

-- decorator ----------------------------------------------------------------------------------------

def dAdmitted (c : DCfg) (p : J) : Bool := c.selMatches p || hasFinalizer p c.finalizer.name

def dParentWoken (c : DCfg) (ev : Event) : Bool :=
  dAdmitted c ev.obj &&
  !(ev.type == .update && (c.ruleExact ev.old).any (fun r => r.ignoreStatusChanges) && statusOnlyChange ev.old ev.obj)

def dRefersTo (c : DCfg) (childNs : String) (ref : OwnerRef) (p : J) : Bool :=
  match (c.resources.reverse).find? (fun r => r.group == apiGroup ref.apiVersion && r.kind == ref.kind) with
  | none => false
  | some res =>
      getAPIVersion p == res.apiVersion && getKind p == res.kind && ref.name == getName p &&
      getNamespace p == (if res.namespaced then childNs else "") && getUID p == ref.uid

def dChildWakes (c : DCfg) (ev : Event) (p : J) : Bool :=
  !isReplay ev && dAdmitted c p &&
  (match controllerOf ev.obj with
   | some ref => dRefersTo c (getNamespace ev.obj) ref p
   | none => false)

end Mc.EvSpec
