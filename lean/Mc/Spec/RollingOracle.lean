import Mc.Spec.SyncOracles
/-
  C07 on one recorded sync of a composite controller with a rolling strategy. Everything is computed
  from what the implementation was given (cached revisions, hook answers, the children map it sent)
  and what it wrote (ControllerRevisions, children, parent status); the model's `syncRollingUpdate`
  is not consulted.
-/
namespace Mc
open SyncCase

/-- identity of a rolling child inside revisions: (apiGroup, kind, name) -/
abbrev CName := String × String × String

def revNames (c : Cfg) (rev : J) : List CName :=
  ((revChildren rev).getD []).flatMap (fun g =>
    if c.isRolling g.apiGroup g.kind then g.names.map (fun n => (g.apiGroup, g.kind, n)) else [])

def cnameOf (o : J) : CName := (apiGroup (getAPIVersion o), getKind o, getName o)

structure RollView where
  fps : List String
  mainParent : J
  /-- hook order, rolling kinds only, as metacontroller compares them (namespace defaulted, generated label added) -/
  kids : List J
  latestName : String
  before : List CName
  after : List CName
  oldRevs : List J
  observed : List (CName × J)

def desiredAsCompared (s : SyncCase) (parent : J) (d : J) : J :=
  let d := setNamespaceIfEmpty (getNamespace parent) d
  if s.cfg.generateSelector then addUidLabel (getUID parent) d else d

/-- the hook call made for the parent as patched with revision `rev` -/
def hookOfRev (s : SyncCase) (v : RollView) (rev : J) : Option Rec :=
  match applyPatch v.mainParent (rev.getD "parentPatch") v.fps with
  | .ok p => (s.hooks.filter (fun h => h.hook != "customize")).find? (fun h => (s.hookParent h).eqv p)
  | .error _ => none

def rollView (s : SyncCase) : Option RollView :=
  if !s.composite || !s.cfg.anyRolling || !s.cfg.parentNamespaced then none else
  match s.parent, s.mainHook with
  | some cached, some h =>
    let parent := s.hookParent h
    -- a parent pending deletion that is not being finalized gets one plain hook call: no rollout logic runs
    if isDeleting parent && !s.cfg.finalizer.shouldFinalize parent then none else
    let uid := getUID cached
    let fps := s.cfg.effectiveFieldPaths
    match makePatch parent fps with
    | .error _ => none
    | .ok latestPatch =>
      let edits := ownershipEdits s h.idx
      let mine := s.cache.revisions.filter (fun r =>
        getNamespace r == getNamespace cached &&
        (match edits.find? (fun e => e.1 == revResource && e.2.2.1 == getName r) with
         | some e => e.2.2.2
         | none =>
             -- claimed without an edit: controlled by the parent and selected by its revision selector
             controllerUID r == uid &&
             (match s.cfg.makeSelector parent [(Generated.labelKeyAPIGroup, s.cfg.parentGroup), (Generated.labelKeyResource, s.cfg.parentResource)] with
              | .ok sel => sel.matches (labelsOf r)
              | .error _ => false)))
      let latestRev := mine.find? (fun r => (r.getD "parentPatch").eqv latestPatch)
      let oldRevs := mine.filter (fun r => !(r.getD "parentPatch").eqv latestPatch)
      let kids := ((s.respChildren h).map (desiredAsCompared s parent)).filter (fun d => s.cfg.isRolling (apiGroup (getAPIVersion d)) (getKind d))
      let desiredNames := kids.map cnameOf
      let before := (match latestRev with | some r => revNames s.cfg r | none => []).filter desiredNames.contains
      let latestName := match latestRev with | some r => getName r | none => ""
      -- the latest revision as written in this sync (created under a new name when it did not exist)
      let writes := s.calls.filter (fun r => r.isRevision && r.ok && (r.verb == "create" || r.verb == "update") &&
          (r.body.getD "parentPatch").eqv latestPatch)
      let after := match writes.getLast? with
        | some w => (revNames s.cfg w.body).filter desiredNames.contains
        | none => before
      let observed := (flatHookObjects (s.hookChildren h)).map (fun x => (cnameOf x.2.2, x.2.2))
      some { fps, mainParent := parent, kids, latestName, before := before.eraseDups, after := after.eraseDups, oldRevs, observed }
  | _, _ => none

def RollView.desiredOf (v : RollView) (c : CName) : Option J := v.kids.find? (fun d => cnameOf d == c)

/-- would reconciling `c` towards the latest desired state change it? (missing or failing merges count as a change) -/
def RollView.realChange (v : RollView) (c : CName) : Bool :=
  match v.observed.lookup c, v.desiredOf c with
  | some o, some d =>
      (match applyUpdate Generated.knownMergeKeys Generated.objectMetaSystemFields o d with
       | .ok n => !(n.eqv o)
       | .error _ => true)
  | _, _ => true

def RollView.oldClaim (v : RollView) (s : SyncCase) (c : CName) : Bool :=
  !v.before.contains c && v.oldRevs.any (fun r => (revNames s.cfg r).contains c)

/-- health of a child on the latest revision, as the statement lists it -/
def RollView.healthy (v : RollView) (s : SyncCase) (c : CName) : Bool :=
  match v.observed.lookup c, s.cfg.strategy c.1 c.2.1 with
  | some o, some st =>
      !v.realChange c &&
      (let og : Int := match nestedField o ["status", "observedGeneration"] with | .ok (some (.num n)) => n | _ => 0
       !(st.method == some "RollingInPlace" && og > 0 && og < getGeneration o)) &&
      childStatusCheck st.checks o
  | _, _ => false

def updatedCondition (o : J) : Option (String × String) :=
  (getStatusCondition o "Updated").map (fun c => (strAt c ["status"], strAt c ["reason"]))

def stripPaths (o : J) (fps : List String) : J :=
  let o := fps.foldl (fun acc fp => removeNestedField acc (fp.splitOn ".")) o
  removeNestedField o ["metadata", "resourceVersion"]

def oracleC07 (s : SyncCase) : Option String :=
  match rollView s with
  | none => none
  | some v =>
    let hs := s.hooks.filter (fun h => h.hook != "customize")
    -- judged only when every hook answered with something decodable and no revision write failed
    let decodable := hs.all (fun h => h.code == 200 && (match h.hookBody with | some b => (decodeCompResp b).toOption.isSome | none => false))
    let revFailed := s.calls.any (fun r => r.isRevision && !r.ok)
    if !decodable || revFailed then none else
    let moved := v.after.filter (fun c => !v.before.contains c)
    let gated := moved.filter (fun c => v.oldClaim s c && v.realChange c)
    let candidates := (v.kids.map cnameOf).filter (fun c => v.oldClaim s c && v.realChange c)
    orElse (check (gated.length ≤ 1) s!"more than one child needing a real change moved to the latest revision in one sync: {gated.map (·.2.2)}") fun _ =>
    orElse (match gated with
      | [c] =>
          orElse (check (candidates.head? == some c) s!"{c.2.2} moved, but the first child in hook order that has to move is {(candidates.head?.map (·.2.2)).getD "-"}") fun _ =>
          firstSome (v.after.filter (· != c)) (fun d =>
            check (v.healthy s d) s!"{c.2.2} moved to the latest revision although {d.2.2}, already on it, is missing, not up to date or failing its checks")
      | _ => none) fun _ =>
    -- every parent revision that is still alive is asked about the parent as it was at that revision
    orElse (firstSome v.oldRevs (fun rev => check ((hookOfRev s v rev).isSome)
      s!"no hook call was made with the parent fields recorded in ControllerRevision {getName rev}")) fun _ =>
    -- parent fields outside the revisioned paths reach every revision's hook call
    orElse (firstSome hs (fun h => check ((stripPaths (s.hookParent h) v.fps).eqv (stripPaths v.mainParent v.fps))
      "a revision's hook call was sent a parent that differs outside the revisioned field paths")) fun _ =>
    -- the rollout condition
    orElse (
      let mh := (s.mainHook.map (·.idx)).getD 0
      let statusWrites := s.calls.filter (fun r => s.isParentTarget r && r.verb == "updateStatus" && r.ok && r.idx > mh)
      let gets := s.calls.filter (fun r => s.isParentTarget r && r.verb == "get" && r.ok && r.idx > mh)
      let final : Option J := match statusWrites.getLast? with
        | some w => some w.body
        | none =>
            -- the write is skipped when the status is already equal: the live read then shows it
            let lastParentCall := (s.calls.filter (fun r => s.isParentTarget r && r.idx > mh)).getLast?
            if s.outcome == "ok" && (lastParentCall.map (fun r => r.verb == "get" && r.ok)).getD false then gets.getLast?.map (·.resp) else none
      match final with
      | none => none
      | some o =>
        let want := match gated with
          | [_] => ("False", "RolloutProgressing")
          | _ => if candidates.isEmpty then ("True", "OnLatestRevision") else ("False", "RolloutWaiting")
        check (updatedCondition o == some want) s!"the Updated condition is {updatedCondition o}, expected {want}") fun _ =>
    -- children still assigned to an old revision are reconciled towards that revision's desired state
    if s.cfg.ssa then none else
    let mh := (s.mainHook.map (·.idx)).getD 0
    let childWrites := s.calls.filter (fun r => r.idx > mh && s.isDependent r && !r.isRevision && (r.verb == "create" || r.verb == "update") && r.isContentWrite)
    firstSome childWrites (fun r =>
      match s.cfg.children.find? (fun ch => ch.resource == r.resource) with
      | none => none
      | some ch =>
        let c : CName := (ch.group, ch.kind, r.name)
        if !s.cfg.isRolling c.1 c.2.1 then none else
        match getLastApplied r.body with
        | .ok (some la) =>
          if v.after.contains c then
            match v.desiredOf c with
            | some d => check (la.eqv (nullifyLastApplied d)) s!"{r.name} is on the latest revision but was written with another desired state"
            | none => none
          else
            let claimers := v.oldRevs.filter (fun rev => (revNames s.cfg rev).contains c)
            if claimers.isEmpty then none else
            let wants := claimers.filterMap (fun rev => (hookOfRev s v rev).bind (fun h =>
              ((s.respChildren h).map (desiredAsCompared s v.mainParent)).find? (fun d => cnameOf d == c)))
            check (wants.isEmpty || wants.any (fun d => la.eqv (nullifyLastApplied d)))
              s!"{r.name} is still assigned to an old revision but was written with a desired state that is not that revision's"
        | _ => none)

end Mc

namespace Mc
open SyncCase

/-- C08, per sync: a rollout never waits on a child that exists, is up to date and passes its status checks -
    when a child still has to move and none moved, some child on the latest revision is not healthy -/
def oracleC08 (s : SyncCase) : Option String :=
  match rollView s with
  | none => none
  | some v =>
    let hs := s.hooks.filter (fun h => h.hook != "customize")
    let decodable := hs.all (fun h => h.code == 200 && (match h.hookBody with | some b => (decodeCompResp b).toOption.isSome | none => false))
    let revFailed := s.calls.any (fun r => r.isRevision && !r.ok)
    if !decodable || revFailed || s.outcome != "ok" then none else
    let moved := v.after.filter (fun c => !v.before.contains c)
    let gated := moved.filter (fun c => v.oldClaim s c && v.realChange c)
    let candidates := (v.kids.map cnameOf).filter (fun c => v.oldClaim s c && v.realChange c)
    check (candidates.isEmpty || !gated.isEmpty || v.after.any (fun d => !v.healthy s d))
      s!"{(candidates.head?.map (·.2.2)).getD ""} has to move and every child on the latest revision is healthy, yet nothing moved"

end Mc
