import Mc.Api
import Mc.Spec.Trace
import Mc.Io
/-
  Cross-check of the Lean API-server model (Mc/Api.lean) against the Go simulator: every request the
  simulator answered itself (not an injected fault) is handed to `Api.handle` with the recorded
  pre-state, body and options; the model must give the recorded code, post-state and response.
  The tokens the simulator handed out (resourceVersion, UID, time) are read off the recorded
  post-state; that they are new is checked separately (`freshTokens`).
-/
namespace Mc.Drv
open Mc

def defsOfJ (j : J) : List Api.ResDef :=
  j.items.map (fun d => { group := d.getStr "group", resource := d.getStr "resource",
                          namespaced := d.getBool "namespaced", hasStatus := d.getBool "hasStatus" })

def verbOfName : String → Option Verb
  | "get" => some .get | "create" => some .create | "update" => some .update | "updateStatus" => some .updateStatus
  | "delete" => some .delete | "patchRemove" => some .patchRemove | "apply" => some .apply
  | _ => none

def optEqvJ (a b : Option J) : Bool :=
  match a, b with
  | none, none => true
  | some x, some y => x.eqv y
  | _, _ => false

/-- tokens as the simulator issued them for this request, read from what it stored / answered -/
def freshOf (r : Rec) : Api.Fresh :=
  let o : J := match r.post with | some p => p | none => r.resp
  { rv := Api.mstr o "resourceVersion", uid := Api.mstr o "uid",
    now := if r.verb == "delete" then Api.mstr o "deletionTimestamp" else Api.mstr o "creationTimestamp" }

def apiCheckOne (defs : List Api.ResDef) (r : Rec) : Option String :=
  match verbOfName r.verb with
  | none => none
  | some v =>
    if r.injected then none else
    match defs.find? (fun d => d.group == r.group && d.resource == r.resource) with
    | none => some s!"no resource definition for {r.group}/{r.resource}"
    | some d =>
      let t : Target := { group := r.group, resource := r.resource, ns := r.ns, name := r.name }
      let out := Api.handle d v t r.pre r.body r.opts r.lastApplied (freshOf r)
      if out.code != r.code.toNat then some s!"{r.verb} {r.resource} {r.ns}/{r.name}: code model {out.code} simulator {r.code}"
      else if !out.ok && out.reason != r.reason then some s!"{r.verb} {r.resource} {r.ns}/{r.name}: reason model {out.reason} simulator {r.reason}"
      else if !optEqvJ out.post r.post then
        some s!"{r.verb} {r.resource} {r.ns}/{r.name}: post-state model {(out.post.getD .null).render} simulator {(r.post.getD .null).render}"
      else match out.resp with
        | some o => if out.ok && !(o.eqv r.resp) then some s!"{r.verb} {r.resource} {r.ns}/{r.name}: response model {o.render} simulator {r.resp.render}" else none
        | none => none

def rvNum (o : Option J) : Nat := match o with | some x => (Api.mstr x "resourceVersion").toNat?.getD 0 | none => 0

/-- a resourceVersion handed out by a write is larger than every one seen before in the trace; a created object's UID is new -/
def freshTokens : List Rec → Nat → List String → Option String
  | [], _, _ => none
  | r :: rest, hi, uids =>
    if r.isHook || r.injected then freshTokens rest hi uids else
    let hi0 := max hi (rvNum r.pre)
    let changed := !optEqvJ r.pre r.post
    let newRv := rvNum r.post
    let uid := match r.post with | some p => Api.mstr p "uid" | none => ""
    let preUids := match r.pre with | some p => [Api.mstr p "uid"] | none => []
    if changed && r.post.isSome && r.code < 300 && newRv ≤ hi0 then some s!"{r.verb} {r.resource} {r.name}: resourceVersion {newRv} is not new (seen {hi0})"
    else if r.pre.isNone && r.post.isSome && r.code < 300 && uids.contains uid then some s!"{r.verb} {r.resource} {r.name}: UID {uid} was seen before"
    else freshTokens rest (max hi0 newRv) (uid :: preUids ++ uids)

def apiCheck (defs : List Api.ResDef) (calls : List Rec) : Option String :=
  match calls.findSome? (apiCheckOne defs) with
  | some m => some m
  | none => freshTokens calls 0 []

end Mc.Drv
