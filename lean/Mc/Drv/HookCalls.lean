import Mc.Drv.Common
import Mc.Hook
namespace Mc.Drv
open Mc.Hook

def bodyClassOf (s : String) : BodyClass :=
  match s with
  | "valid" => .valid | "unknownFields" => .unknownFields | "duplicateFields" => .duplicateFields | _ => .invalid

def answerOfJ (j : J) : Answer :=
  { status := (j.getInt "status").toNat, etag := j.getStr "etag",
    body := { id := j.getStr "bodyId", cls := bodyClassOf (j.getStr "bodyClass") },
    retryAfter := match j.getStr "retryClass" with
      | "numeric" => .numeric (j.getInt "retryArg")
      | "date" => .date (j.getInt "retryArg")
      | "garbage" => .garbage
      | _ => .absent }

def resultText : Result → String
  | .ok b => "ok:" ++ b.id
  | .tooMany n => s!"tooMany:{n}"
  | .unsupportedStatus => "err:unsupportedStatus"
  | .cacheMiss => "err:cacheMiss"
  | .undecodable => "err:undecodable"
  | .strictRejected => "err:strictRejected"

def implResultText (j : J) : String :=
  match j.get? "ok", j.get? "tooMany", j.get? "err" with
  | some (.str id), _, _ => "ok:" ++ id
  | _, some (.num n), _ => s!"tooMany:{n}"
  | _, _, some (.str e) => "err:" ++ e
  | _, _, _ => "?"

/-- kind "hookcalls": real webhookExecutor.Call under a schedule of concurrent calls -/
def handleHookCalls (c : J) : Res := Id.run do
  let m : Mode := { etagEnabled := c.getBool "etag", strict := c.getBool "strict" }
  let init : ECache := (c.opt "initial").map (fun e =>
    { etag := e.getStr "etag", body := { id := e.getStr "bodyId", cls := bodyClassOf (e.getStr "bodyClass") } })
  let answers := (c.getArr "answers").map answerOfJ
  let steps : List Step := (c.getD "schedule").strList.map (fun s =>
    let i := (s.drop 1).toString.toNat!
    if s.startsWith "E" then Step.enrich i else Step.finish i (answers.getD i default))
  let st := run m { cache := init } steps
  let mut r : Res := { sig := (J.obj [("e", c.getD "etag"), ("s", c.getD "strict"), ("i", c.getD "initial"), ("sch", c.getD "schedule"), ("a", c.getD "answers")]).render }
  r := pass r "C19"
  let implRes := c.getArr "results"
  let implInm := (c.getD "inm").strList
  for i in [0:answers.length] do
    let mr := (st.results.lookup i).map resultText
    let ir := implResultText (implRes.getD i .null)
    if mr != some ir then r := disagree r s!"call {i}: model {mr} impl {ir}"
    if (st.inm.lookup i).getD "" != implInm.getD i "" then r := disagree r s!"call {i}: If-None-Match model {(st.inm.lookup i).getD ""} impl {implInm.getD i ""}"
    -- oracle on the implementation's result (independent of the model's result)
    let a := answers.getD i default
    let inm := implInm.getD i ""
    if ir.startsWith "ok:" then
      let id := (ir.drop 3).toString
      if !(a.status == 200 || (m.etagEnabled && inm != "" && (a.status == 304 || a.status == 412))) then
        r := fail r "C19" s!"call {i} succeeded on status {a.status} (If-None-Match sent: '{inm}')"
      else if a.status == 200 then
        if id != a.body.id then r := fail r "C19" s!"call {i}: body used is not the body of the 200 answer"
        if a.body.cls == .invalid then r := fail r "C19" "an undecodable body was accepted"
        if m.strict && (a.body.cls == .unknownFields || a.body.cls == .duplicateFields) then r := fail r "C19" "strict mode accepted a response with unknown or duplicate fields"
      else
        -- served from the cache: the body must have been stored together with exactly the ETag that was sent
        let stored : List (String × String) :=
          (match init with | some e => [(e.etag, e.body.id)] | none => []) ++
          (answers.filter (fun x => x.status == 200 && x.etag != "")).map (fun x => (x.etag, x.body.id))
        if !(stored.contains (inm, id)) then r := fail r "C19" s!"call {i}: 304 answered with body {id}, which was never cached under the ETag sent ({inm})"
        -- ... and a replayed body is validated like a fresh one
        let classes : List (String × BodyClass) :=
          (match init with | some e => [(e.body.id, e.body.cls)] | none => []) ++ answers.map (fun x => (x.body.id, x.body.cls))
        match classes.lookup id with
        | some .invalid => r := fail r "C19" s!"call {i}: an undecodable cached body was accepted"
        | some .unknownFields | some .duplicateFields =>
            if m.strict then r := fail r "C19" s!"call {i}: strict mode accepted a cached body with unknown or duplicate fields (replayed on {a.status})"
        | _ => pure ()
        r := tag r "served-from-cache"
    else if ir.startsWith "tooMany:" then
      if a.status != 429 then r := fail r "C19" "retry delay reported for a status other than 429"
      else if ir != s!"tooMany:{retrySeconds a.retryAfter}" then r := fail r "C19" s!"wrong retry delay {ir} for {repr a.retryAfter}"
      r := tag r "429"
    else
      -- an error: it must not be a well-formed 200 in a mode that accepts it
      if a.status == 200 && (a.body.cls == .valid || (!m.strict && a.body.cls != .invalid)) then
        r := fail r "C19" s!"call {i}: a well-formed 200 answer was rejected ({ir})"
      r := tag r "error"
  if (c.getD "schedule").strList.length > 2 then r := tag r "concurrent"
  return r

/-- `webhookTimeout`: the configured timeout, 10 s when none is set -/
def effectiveTimeoutMs (t : Nat) : Nat := if t == 0 then 10000 else t

/-- kind "hookexec": executors built by the real `NewWebhookExecutor` (real HTTP client, metrics wrapper), one per
    incarnation of a controller re-created under the same name with another timeout; the hook answers after `delayMs`.
    "A timeout is an error": the call fails exactly when the answer comes later than the timeout of *that* incarnation. -/
def handleHookExec (c : J) : Res := Id.run do
  let steps := c.getArr "steps"
  let mut r : Res := { sig := (J.obj [("ctl", c.getD "controller"), ("hook", c.getD "hook"),
    ("steps", .arr (steps.map (fun s => J.obj (s.fields.filter (fun kv => ["timeoutMs", "delayMs", "etag"].contains kv.1)))))]).render }
  r := tag (pass r "C19") "hookexec"
  for (s, i) in steps.zipIdx do
    let t := effectiveTimeoutMs (s.getInt "timeoutMs").toNat
    let d := (s.getInt "delayMs").toNat
    let late := d > t
    if late then r := tag r "timed-out"
    if late && !s.getBool "error" then
      r := fail r "C19" s!"incarnation {i}: the hook answered after {d} ms, the configured timeout is {t} ms, and the late answer was accepted"
    else if !late && s.getBool "error" then
      r := fail r "C19" s!"incarnation {i}: the hook answered after {d} ms, within the timeout of {t} ms, and the call failed"
    else if !late && s.getStr "id" != "late" then
      r := fail r "C19" s!"incarnation {i}: the answer body was not the one the hook sent"
  return r

end Mc.Drv
