import Mc.Drv.Merge
namespace Mc.Drv
open Mc.C05

def optEqv (a b : Except String (Option J)) : Bool :=
  match a, b with
  | .ok (some x), .ok (some y) => x.eqv y
  | .ok none, .ok none => true
  | _, _ => false

/-- desired with the parts ApplyUpdate deliberately ignores removed -/
def stripDesired (sysFields : List String) (u : J) : J :=
  let u1 := removeNestedField (nullifyLastApplied u) ["status"]
  sysFields.foldl (fun acc f => removeNestedField acc ["metadata", f]) u1

/-- kind "apply": real `ApplyUpdate(orig, update)` against the model and the C05 laws -/
def handleApply (c : J) : Res := Id.run do
  let mks := Generated.knownMergeKeys
  let sys := Generated.objectMetaSystemFields
  let orig := c.getD "orig"; let upd := c.getD "update"
  let out := c.getD "out"
  let mut r : Res := { sig := (J.obj [("o", orig), ("u", upd)]).render }
  let model := applyUpdate mks sys orig upd
  match model, outKind out with
  | .ok m, "ok" =>
      if !(m.eqv (out.getD "ok")) then r := disagree r s!"model={m.render}"
      else if (m.eqv orig) != c.getBool "equal" then r := disagree r "no-op verdict differs"
  | .error _, "err" => pure ()
  | .ok m, k => r := disagree r s!"model ok={m.render} impl {k}"
  | .error e, k => r := disagree r s!"model error={e} impl {k}"
  -- the observed object is an API object: metadata is a map, labels/annotations are string maps
  let wfMeta := fun (o : J) (strict : Bool) =>
    (match o.get? "metadata" with | some (.obj _) => true | none => !strict | _ => false) &&
    (match nestedField o ["metadata", "annotations"] with | .ok (some _) => (getAnnotations o).isSome | .ok none => true | _ => false) &&
    (match nestedField o ["metadata", "labels"] with | .ok (some _) => (getLabels o).isSome | .ok none => true | _ => false)
  let hyp := hypJ mks orig && hypJ mks upd && scalarKeys mks orig && scalarKeys mks upd && wfMeta orig true && wfMeta upd false
  if !hyp then
    r := tag r "outside-hypothesis"
    if outKind out == "panic" then r := fail r "C05" "panic"
    return r
  r := pass r "C05"
  if !(c.getBool "origPure") then r := fail r "C05" "ApplyUpdate mutated the observed object"
  if (c.get? "updatePure").isSome && !(c.getBool "updatePure") then r := fail r "C05" "ApplyUpdate mutated the desired object it was handed"
  match outKind out with
  | "panic" => r := fail r "C05" "panic"
  | "err" => r := tag r "error"
  | _ =>
    let res := out.getD "ok"
    let upd' := nullifyLastApplied upd
    if clash orig (stripDesired sys upd) then
      r := fail r "C05" "type clash between desired and observed silently dropped"
      return r
    for f in sys do
      if !(optEqv (nestedField res ["metadata", f]) (nestedField orig ["metadata", f])) then
        r := fail r "C05" s!"system metadata field {f} not kept as observed"
    if !(optEqv (nestedField res ["status"]) (nestedField orig ["status"])) then
      r := fail r "C05" "status not kept as observed"
    match getLastApplied res with
    | .ok (some la) => if !(la.eqv upd') then r := fail r "C05" "last-applied record is not the new desired state"
    | _ => r := fail r "C05" "last-applied record missing"
    if !(contains res (stripDesired sys upd)) then r := fail r "C05" "contains: a desired field does not have the desired value"
    let out2 := c.getD "out2"
    let broken := outKind out2 != "ok" || !((out2.getD "ok").eqv res) || !(c.getBool "equal2")
    let nno := noNullOverArr orig (stripDesired sys upd)
    if hypJ mks res || !nno then
      if broken then
        r := fail r "C05" "idempotence: re-applying desired changed the result"
        if !nno then r := { r with finding := "F-C05-1" }
    else r := tag r "result-outside-hypothesis"
    if !(c.getBool "equal") then r := tag r "changed" else r := tag r "noop"
    if (getLastApplied orig) matches .ok none then r := tag r "never-applied"
  return r

end Mc.Drv
