import Mc.Drv.Common
import Mc.Spec.C05
import Mc.Proofs.C05Hyps
namespace Mc.Drv
open Mc.C05

def outKind (out : J) : String :=
  if (out.get? "panic").isSome then "panic" else if (out.get? "err").isSome then "err" else "ok"

mutual
partial def hasListMap (mks : List String) : J → Bool
  | .obj kvs => kvs.any (fun kv => hasListMap mks kv.2)
  | .arr xs => (xs != [] && (sharedKeys mks xs) != []) || xs.any (hasListMap mks)
  | _ => false
end

/-- shape of finding F-C05-1: at a path through objects, desired is `null`, observed a non-empty
    list and the first result an emptied list (`[]`), which a second application turns into `null` -/
partial def nullOverEmptiedList (r o d : J) : Bool :=
  match d, o, r with
  | .null, .arr (_ :: _), .arr [] => true
  | .obj ds, .obj os, .obj rs =>
      ds.any (fun kv => match lookup kv.1 os, lookup kv.1 rs with
                        | some ov, some rv => nullOverEmptiedList rv ov kv.2
                        | _, _ => false)
  | _, _, _ => false

/-- kind "merge": real `apply.Merge(o, l, d)` against the model and the C05 laws -/
def handleMerge (c : J) : Res := Id.run do
  let mks := Generated.knownMergeKeys
  let o := c.getD "o"; let l := c.opt "l"; let d := c.getD "d"
  let out := c.getD "out"
  let mut r : Res := { sig := (J.obj [("o", o), ("l", l.getD .null), ("d", d)]).render }
  let model := mergeTop mks o l d
  -- correspondence
  match model, outKind out with
  | .ok m, "ok" => if !(m.eqv (out.getD "ok")) then r := disagree r s!"model={m.render}"
  | .error _, "err" => pure ()
  | .ok m, k => r := disagree r s!"model ok={m.render} impl {k}"
  | .error e, k => r := disagree r s!"model error={e} impl {k}"
  -- oracle on the real output
  let hyp := hypJ mks o && hypJ mks d && (l.map (hypJ mks)).getD true &&
             scalarKeys mks o && scalarKeys mks d && (l.map (scalarKeys mks)).getD true
  if hasListMap mks d || hasListMap mks o then r := tag r "listmap"
  if clash o d then r := tag r "clash"
  if !hyp then
    r := tag r "outside-hypothesis"
    -- still: never panic
    if outKind out == "panic" then r := fail r "C05" "panic"
    return r
  r := pass r "C05"
  if !(c.getBool "pure") then r := fail r "C05" "inputs mutated"
  match outKind out with
  | "panic" => r := fail r "C05" "panic"
  | "err" =>
    r := tag r "error"
    -- an error is the report of a clash between desired and observed; the last-applied record alone never causes one
    if !(shapeMismatch o d) then r := fail r "C05" "the merge failed although observed and desired agree in shape everywhere (no clash between them to report)"
  | _ =>
    let res := out.getD "ok"
    if clash o d then r := fail r "C05" "type clash between desired and observed silently dropped"
    else
      if !(contains res d) then r := fail r "C05" "contains: a desired field does not have the desired value"
      if !(laws mks res o l d) then r := fail r "C05" "removed/preserved law broken"
      -- idempotence is claimed (theorem C05_idempotent) when the result again satisfies the hypothesis
      -- and desired holds no null over an observed list; the latter shape is recorded finding F-C05-1
      let out2 := c.getD "out2"
      let broken := outKind out2 != "ok" || !((out2.getD "ok").eqv res)
      if hypJ mks res || !(noNullOverArr o d) then
        if broken then
          r := fail r "C05" "idempotence: re-applying desired changed the result"
          if !(noNullOverArr o d) then r := { r with finding := "F-C05-1" }
      else r := tag r "result-outside-hypothesis"
      if !(res.eqv o) then r := tag r "changed"
  return r

end Mc.Drv
