import Mc.Drv.SyncHandle
import Mc.Spec.InformerSpec
/- Driver side of the "informer" lines: the model's run, the history specification, and what the real factory did. -/
namespace Mc.Drv
open Mc.Inf

def opOfJ (j : J) : Op :=
  match j.getStr "op" with
  | "subscribe" => .subscribe (j.getInt "res").toNat
  | "close" => .close (j.getInt "sub").toNat
  | "addHandler" => .addHandler (j.getInt "sub").toNat (j.getInt "handler").toNat
  | "removeHandlers" => .removeHandlers (j.getInt "sub").toNat
  | _ => .event (j.getInt "res").toNat (j.getStr "type") (j.getStr "name")

def sortDel (xs : List (Nat × String × String)) : List (Nat × String × String) :=
  (xs.toArray.qsort (fun a b => a.1 < b.1 || (a.1 == b.1 && (a.2.2 < b.2.2 || (a.2.2 == b.2.2 && a.2.1 < b.2.1))))).toList

def delOfJ (j : J) : List (Nat × String × String) :=
  sortDel (j.items.map (fun d => ((d.getInt "h").toNat, d.getStr "t", d.getStr "n")))

def handleInformer (c : J) : Res := Id.run do
  let opsJ := c.getArr "ops"
  let ops := opsJ.map opOfJ
  let initial : List (Nat × List String) := (c.getArr "initial").zipIdx.map (fun (x, i) => (i, x.strList))
  let keys := (c.getD "keys").strList
  let mut r : Res := { sig := (J.obj [("initial", c.getD "initial"), ("ops", .arr (opsJ.map (fun o => J.obj (o.fields.filter (fun kv => ["op", "res", "sub", "handler", "type", "name"].contains kv.1)))))]).render }
  let (_, outs) := run { store := initial } ops
  -- model vs implementation, operation by operation
  let mut st : State := { store := initial }
  for (oj, i) in opsJ.zipIdx do
    let op := opOfJ oj
    let (st', o) := step st op
    st := st'
    let implDel := delOfJ (oj.getD "deliveries")
    let lists := (oj.getArr "lists").map (fun x => (x.int?.getD 0).toNat)
    let closed := (oj.getArr "watchClosed").map (fun x => (x.int?.getD 0).toNat)
    let implStarted := (List.range lists.length).find? (fun k => lists.getD k 0 > 0)
    let implStopped := (List.range closed.length).find? (fun k => closed.getD k 0 > 0)
    if sortDel o.deliveries != implDel then r := disagree r s!"[informer] op {i} ({oj.getStr "op"}): model delivers {sortDel o.deliveries}, implementation {implDel}"
    if o.started != implStarted then r := disagree r s!"[informer] op {i}: model starts {o.started}, implementation lists {lists}"
    if o.stopped != implStopped then r := disagree r s!"[informer] op {i}: model stops {o.stopped}, implementation closes {closed}"
    let rc := st.refCounts.map (fun (res, n) => (keys.getD res "", n))
    let implRc := (oj.getD "refCount").fields.map (fun kv => (kv.1, (kv.2.int?.getD 0).toNat))
    if !(rc.all (fun x => implRc.contains x) && implRc.all (fun x => rc.contains x)) then
      r := disagree r s!"[informer] op {i}: model refcounts {rc}, implementation {implRc}"
    if !implDel.isEmpty then r := tag r "delivered"
    if implStopped.isSome then r := tag r "stopped"
    r := tag r ("op-" ++ oj.getStr "op")
    if oj.getBool "failedSubscribe" then r := tag r "failed-subscribe"
  let _ := outs
  -- C18 oracle: the history specification on the real observations
  r := judge r "C18" (firstSome (List.range ops.length) (fun i =>
    let oj := opsJ.getD i .null
    let implDel := delOfJ (oj.getD "deliveries")
    let lists := (oj.getArr "lists").map (fun x => (x.int?.getD 0).toNat)
    let closed := (oj.getArr "watchClosed").map (fun x => (x.int?.getD 0).toNat)
    let want := sortDel (InfSpec.expected initial ops i)
    orElse (firstSome want (fun d => check (implDel.contains d) s!"op {i} ({oj.getStr "op"}): handler {d.1} must receive {d.2.1} {d.2.2} but did not")) fun _ =>
    orElse (firstSome implDel (fun d => check (want.contains d) s!"op {i} ({oj.getStr "op"}): handler {d.1} received {d.2.1} {d.2.2}, which it must not (not registered, removed, or another subscriber's informer)")) fun _ =>
    orElse (check (implDel.length == want.length) s!"op {i}: a delivery was duplicated") fun _ =>
    orElse (check ((InfSpec.mustStart ops i).isSome == (lists.any (· > 0))) s!"op {i}: the underlying informer must start exactly when the first subscription opens (lists {lists})") fun _ =>
    orElse (check ((InfSpec.mustStop ops i).isSome == (closed.any (· > 0))) s!"op {i}: the underlying informer must stop exactly when the last subscription closes (watch closures {closed})") fun _ =>
    let implRc := (oj.getD "refCount").fields.map (fun kv => (kv.1, (kv.2.int?.getD 0).toNat))
    orElse (firstSome implRc (fun (k, n) => check (keys.contains k || n == 0)
      s!"op {i}: reference count {n} for {k}, to which no subscription was ever opened (a failed subscription must leave nothing behind)")) fun _ =>
    firstSome (List.range keys.length) (fun res =>
      let n := InfSpec.openCount ops (i + 1) res
      check ((implRc.lookup (keys.getD res "")).getD 0 == n) s!"op {i}: reference count of {keys.getD res ""} is {(implRc.lookup (keys.getD res "")).getD 0}, open subscriptions {n}")))
  return r

end Mc.Drv
