import Mc.World
import Mc.Drv.ApiCheck
import Mc.Drv.Sync
/-
  Closed-loop correspondence: the Lean sync model run against the Lean API-server model (Mc/World.lean), from
  the store the real sync started from and with the recorded webhook answers, must leave the store the real
  metacontroller left in the simulator - up to the tokens the two servers hand out (UIDs, resourceVersions,
  timestamps) and the order in which independent requests were sent.  This ties the *composition*
  (sync model ∘ API model), which the closed-world theorems are about, to the composition
  (metacontroller ∘ simulator) that actually ran.
-/
namespace Mc.Drv
open Mc

/-- (group, kind) -> resource definition -/
def defKinds (j : J) : List ((String × String) × Api.ResDef) :=
  j.items.map (fun d => ((d.getStr "group", d.getStr "kind"),
    { group := d.getStr "group", resource := d.getStr "resource", namespaced := d.getBool "namespaced", hasStatus := d.getBool "hasStatus" }))

def targetOfObj (kinds : List ((String × String) × Api.ResDef)) (o : J) : Option Target :=
  let g := apiGroup (getAPIVersion o)
  match kinds.find? (fun e => e.1.1 == g && e.1.2 == getKind o) with
  | some e => some { group := e.2.group, resource := e.2.resource, ns := if e.2.namespaced then getNamespace o else "", name := getName o }
  | none => none

def uidNum (s : String) : Nat := ((s.drop 4).toString.toNat?).getD 0

def stateOfStore (defsJ : J) (store : List J) : Api.State :=
  let kinds := defKinds defsJ
  let objs := store.filterMap (fun o => (targetOfObj kinds o).map (fun t => (t, o)))
  { defs := kinds.map (·.2), objs := objs, applied := [],
    rv := store.foldl (fun m o => max m ((Api.mstr o "resourceVersion").toNat?.getD 0)) 0,
    uid := store.foldl (fun m o => max m (uidNum (Api.mstr o "uid"))) 0,
    clock := 0 }

/-- what two stores are compared on: everything except the tokens handed out by the server -/
def stripTokens (o : J) : J :=
  let m := Api.metaOf o
  let del := hasKey "deletionTimestamp" m
  let m := (["uid", "resourceVersion", "creationTimestamp", "deletionTimestamp"].foldl (fun m k => eraseKey k m) m)
  let m := if del then setKey "deleting" (.bool true) m else m
  -- Go's map iteration order shows in the name lists of ControllerRevisions and in the RolloutWaiting message
  (normBody (Api.withMeta o m)).canon

def storeKey (o : J) : String := getAPIVersion o ++ "/" ++ getKind o ++ "/" ++ getNamespace o ++ "/" ++ getName o

def canonStore (store : List J) : List (String × J) :=
  ((store.map (fun o => (storeKey o, stripTokens o))).toArray.qsort (fun a b => a.1 < b.1)).toList

/-- the recorded webhook as a function of (hook name, request) -/
def hookOfRecs (recs : List Rec) (name : String) (req : J) : Resp :=
  match recs.find? (fun r => r.isHook && r.hook == name && req.eqv r.hookReq) with
  | some r => respOfRec r
  | none => .hookErr "unrecorded"

def storeDiff : List (String × J) → List (String × J) → Option String
  | [], [] => none
  | (k, o) :: _, [] => some s!"model has {k}, the simulator has not: {o.render}"
  | [], (k, o) :: _ => some s!"the simulator has {k}, the model has not: {o.render}"
  | (k, o) :: a, (k', o') :: b =>
      if k != k' then some s!"key {k} (model) vs {k'} (simulator)"
      else if !(o.eqv o') then some s!"{k}: model {o.render} simulator {o'.render}"
      else storeDiff a b

/-- none = the final stores agree (or the case is outside the comparison: injected faults, outside writers, apply) -/
def closedLoopCheck {α : Type} (c : J) (calls : List Rec) (prog : Prog α) : Option String × Bool :=
  let skip := calls.any (fun r => r.injected || r.verb == "apply") || c.getStr "scenario" == "interleave"
  if skip then (none, false) else
  let s0 := stateOfStore (c.getD "defs") (c.getArr "storeBefore")
  match Prog.run (Api.worldStep (hookOfRecs calls)) prog s0 800 with
  | none => (some "closed-loop run out of fuel", true)
  | some (_, s1, log) =>
    if log.any (fun e => match e.2 with | .hookErr "unrecorded" => true | _ => false) then (none, false)
    else (storeDiff (canonStore (s1.objs.map (·.2))) (canonStore (c.getArr "storeAfter")), true)

end Mc.Drv
