import Mc.Drv.Sync
namespace Mc.Drv

/-- kind "sync": one real sync (processNextWorkItem) against the model -/
def handleSync (c : J) : Res := Id.run do
  let cfg := cfgOfJ (c.getD "cfg")
  let cache := cacheOfJ (c.getD "cache")
  let recs := (c.getArr "calls").map Rec.ofJ
  let result := c.getD "result"
  let (ns, name) := splitKey (c.getStr "key")
  let mut r : Res := { sig := (J.obj [("cfg", c.getD "cfg"), ("cache", c.getD "cache"), ("calls", c.getD "calls")]).render }
  if c.getStr "ctl" == "composite" then
    let (fin, st) := replay (syncCompositeFull cfg cache ns name (c.getStr "revName")) { recs := recs.map (·, false) } 600
    for m in st.mismatches do r := disagree r m
    match fin with
    | none => pure ()
    | some f =>
      for x in unconsumed st do r := disagree r s!"implementation issued a request the model did not: {x.verb} {x.resource} {x.ns}/{x.name} {x.hook}"
      if outcomeName f.outcome != result.getStr "outcome" then
        r := disagree r s!"outcome: model {outcomeName f.outcome} impl {result.getStr "outcome"} {result.getStr "detail"}"
      if f.after != recordedAfter result then r := disagree r s!"addAfter: model {f.after} impl {recordedAfter result}"
  else
    let dc := dcfgOfJ (c.getD "cfg")
    let parts := (c.getStr "key").splitOn ":"
    let (fin, st) := replay (syncDecorator dc cache (parts.getD 0 "") (parts.getD 1 "") (parts.getD 2 "") (":".intercalate (parts.drop 3))) { recs := recs.map (·, false) } 400
    for m in st.mismatches do r := disagree r m
    match fin with
    | none => pure ()
    | some f =>
      for x in unconsumed st do r := disagree r s!"implementation issued a request the model did not: {x.verb} {x.resource} {x.ns}/{x.name} {x.hook}"
      if outcomeName f.outcome != result.getStr "outcome" then
        r := disagree r s!"outcome: model {outcomeName f.outcome} impl {result.getStr "outcome"} {result.getStr "detail"}"
      if f.after != recordedAfter result then r := disagree r s!"addAfter: model {f.after} impl {recordedAfter result}"
  for x in recs do
    if x.isWrite && x.ok then r := tag r x.verb
    if x.isHook then r := tag r ("hook-" ++ x.hook)
  r := tag r ("outcome-" ++ result.getStr "outcome")
  return r

end Mc.Drv
