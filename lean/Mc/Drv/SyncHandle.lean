import Mc.Drv.Sync
import Mc.Spec.SyncOracles
import Mc.Spec.RollingOracle
import Mc.Spec.RelatedOracle
import Mc.Drv.ApiCheck
import Mc.Drv.ClosedLoop
namespace Mc.Drv

def caseOfJ (c : J) : SyncCase :=
  let composite := c.getStr "ctl" == "composite"
  let cache := cacheOfJ (c.getD "cache")
  let key := c.getStr "key"
  let parent : Option J :=
    if composite then
      let (ns, name) := splitKey key
      cache.parents.find? (fun p => getNamespace p == ns && getName p == name)
    else
      let parts := key.splitOn ":"
      cache.parents.find? (fun p => getAPIVersion p == parts.getD 0 "" && getKind p == parts.getD 1 "" &&
        getNamespace p == parts.getD 2 "" && getName p == ":".intercalate (parts.drop 3))
  let result := c.getD "result"
  { composite, cfg := if composite then cfgOfJ (c.getD "cfg") else default,
    dcfg := if composite then default else dcfgOfJ (c.getD "cfg"),
    cache, parent, calls := (c.getArr "calls").map Rec.ofJ,
    outcome := result.getStr "outcome", after := recordedAfter result, cacheIntact := c.getBool "cacheIntact",
    parentAfter := match parent with
      | some p => (c.getArr "storeAfter").find? (fun o => getKind o == getKind p && getAPIVersion o == getAPIVersion p &&
          getNamespace o == getNamespace p && getName o == getName p)
      | none => none }

/-- a clause starting with `[F-…]` names the recorded finding whose shape the failure has -/
def findingOf (clause : String) : String :=
  if clause.startsWith "[F-" then ((clause.drop 1).takeWhile (· != ']')).toString else ""

def judge (r : Res) (p : String) (v : Option String) : Res :=
  match v with
  | none => pass r p
  | some clause =>
    let r' := fail r p clause
    if findingOf clause != "" && r'.finding == "" then { r' with finding := findingOf clause } else r'


/-- kind "sync": one real sync (processNextWorkItem) against the model, and the per-trace oracles -/
def handleSync (c : J) : Res := Id.run do
  let s := caseOfJ c
  let result := c.getD "result"
  let mut r : Res := { sig := (J.obj [("cfg", c.getD "cfg"), ("cache", c.getD "cache"), ("calls", c.getD "calls")]).render }
  -- correspondence: replay the model against the recorded responses
  let hidden : Hidden := { memo := memoOfJ (c.getD "memoBefore"), customize := c.opt "customizeCached" }
  let prog : Prog FinalH :=
    if s.composite then
      let (ns, name) := splitKey (c.getStr "key")
      syncCompositeFull s.cfg s.cache ns name (c.getStr "revName") hidden
    else
      let parts := (c.getStr "key").splitOn ":"
      syncDecoratorFull s.dcfg s.cache (parts.getD 0 "") (parts.getD 1 "") (parts.getD 2 "") (":".intercalate (parts.drop 3)) hidden
  let pk := (s.parentGR.1, s.parentGR.2, (s.parent.map getName).getD "")
  let (finH, st) := replay prog { recs := s.calls.map (·, false), parentKey := pk } 600
  let fin := finH.map (·.final)
  for m in st.mismatches do
    r := disagree r m
    r := tag r ("diff-" ++ ((m.drop 1).takeWhile (· != ']')).toString)
  match fin with
  | none => pure ()
  | some f =>
    for x in unconsumed st do
      let area := if x.isHook then "hook" else if s.isParentTarget x then (if x.verb == "updateStatus" then "status" else "parent")
                  else if x.isRevision then "revisions" else "children"
      r := disagree r s!"[{area}] implementation issued a request the model did not: {x.verb} {x.resource} {x.ns}/{x.name} {x.hook}"
      r := tag r ("diff-" ++ area)
    if outcomeName f.outcome != result.getStr "outcome" then
      r := tag (disagree r s!"[outcome] outcome: model {outcomeName f.outcome} impl {result.getStr "outcome"} {result.getStr "detail"}") "diff-outcome"
    if f.after != recordedAfter result then r := tag (disagree r s!"[outcome] addAfter: model {f.after} impl {recordedAfter result}") "diff-outcome"
  -- the Lean API-server model against the simulator, request by request
  match apiCheck (defsOfJ (c.getD "defs")) s.calls with
  | some m => r := tag (disagree r ("[apimodel] " ++ m)) "diff-apimodel"
  | none => r := tag r "apimodel-agrees"
  -- sync model ∘ API model from the recorded start store vs what metacontroller ∘ simulator left behind
  match closedLoopCheck c s.calls prog with
  | (some m, _) => r := tag (disagree r ("[closedloop] " ++ m)) "diff-closedloop"
  | (none, true) => r := tag r "closedloop-agrees"
  | (none, false) => pure ()
  -- oracles on the implementation's own trace
  r := judge r "C02" (oracleC02 s)
  r := judge r "C03" (oracleC03 s)
  r := judge r "C04" (oracleC04 s)
  r := judge r "C06" (oracleC06 s)
  r := judge r "C07" (oracleC07 s)
  r := judge r "C08" (oracleC08 s)
  r := judge r "C09" (oracleC09 s)
  r := judge r "C10" (oracleC10 s)
  r := judge r "C11" (oracleC11 s)
  r := judge r "C12" (oracleC12 s)
  r := judge r "C13" (oracleC13 s)
  r := judge r "C15" (oracleC15 s (c.opt "customizeCached") (c.opt "customizeExpected"))
  r := judge r "C16" (oracleC16 s)
  r := judge r "C17" (oracleC17 s)
  for x in s.calls do
    if x.isWrite && x.ok then r := tag r (x.verb ++ (if s.isParentTarget x then "-parent" else if x.isRevision then "-revision" else "-child"))
    if x.isWrite && !x.ok then r := tag r ("failed-" ++ x.verb)
    if x.isHook then r := tag r ("hook-" ++ x.hook)
  r := tag r ("outcome-" ++ result.getStr "outcome")
  -- which decisions the case exercised (input distribution, printed into the evidence; no verdict depends on it)
  if s.composite then
    match s.parent, selectorOfCase s with
    | some p, some sel =>
        r := tag r (if isDeleting p then "parent-deleting" else "parent-alive")
        if hasFinalizer p s.finalizerName != s.finalizeEnabled then r := tag r (if s.finalizeEnabled then "finalizer-to-add" else "finalizer-to-remove")
        for g in s.cache.children do
          for o in g.2 do
            let dec := claimDecision (getUID p) (isDeleting p) (sel.matches (labelsOf o)) o
            r := tag r (match dec with
              | .keep => "claim-keep" | .adopt => "claim-adopt" | .release => "claim-release"
              | .ignore => if (controllerOf o).isSome then "claim-ignore-foreign" else "claim-ignore-orphan")
    | _, _ => pure ()
  match s.mainHook with
  | some h =>
      if !(s.composite && (s.cfg.ssa || s.cfg.anyRolling)) then
        let observed := (flatHookObjects (s.hookChildren h)).map (·.2.2)
        let desired := desiredCompared s h
        for d in desired do
          if !(observed.any (sameObject d)) then r := tag r "child-missing"
        for o in observed do
          match desired.find? (sameObject o) with
          | none => r := tag r (if isDeleting o then "child-undesired-pending-deletion" else "child-undesired")
          | some d =>
              let (g, _) := parseAPIVersion (getAPIVersion o)
              let method := methodOfCase s g (getKind o)
              match applyUpdate Generated.knownMergeKeys Generated.objectMetaSystemFields o d with
              | .error _ => r := tag r "child-merge-error"
              | .ok n =>
                  if n.eqv o then r := tag r "child-equal"
                  else if isDeleting o then r := tag r "child-differs-pending-deletion"
                  else r := tag r ("child-differs-" ++ (if method == "" then "nostrategy" else method))
  | none => pure ()
  -- which states of the rollout gate the case reached (coverage of C07/C08, printed into the evidence)
  match rollView s with
  | none => pure ()
  | some v =>
    let candidates := (v.kids.map cnameOf).filter (fun c => v.oldClaim s c && v.realChange c)
    let moved := (v.after.filter (fun c => !v.before.contains c)).filter (fun c => v.oldClaim s c && v.realChange c)
    if !candidates.isEmpty then
      r := tag r (if moved.isEmpty then "gate-closed" else "gate-moved")
      for d in v.before do
        match v.observed.lookup d, s.cfg.strategy d.1 d.2.1 with
        | some o, some st =>
            let og : Int := match nestedField o ["status", "observedGeneration"] with | .ok (some (.num n)) => n | _ => 0
            if v.realChange d then r := tag r "latest-child-not-updated"
            else if st.method == some "RollingInPlace" && og > 0 && og < getGeneration o then r := tag r "latest-child-generation-behind"
            else if !childStatusCheck st.checks o then
              r := tag r (if og > 0 then "latest-child-fails-checks" else "latest-child-fails-checks-no-observedGeneration")
            else pure ()
        | none, _ => r := tag r "latest-child-missing"
        | _, _ => pure ()
  return r

end Mc.Drv
