import Mc.Drv.Common
import Mc.Spec.Trace
/- Driver side of the sync traces: parsing, replay of the model against the recorded calls. -/
namespace Mc.Drv

def checkOfJ (j : J) : Check :=
  { type := j.getStr "type", status := (j.opt "status").bind J.str?, reason := (j.opt "reason").bind J.str? }

def childResOfJ (j : J) : ChildRes :=
  let m := j.getStr "method"
  { apiVersion := j.getStr "apiVersion", resource := j.getStr "resource", kind := j.getStr "kind",
    namespaced := j.getBool "namespaced", hasStatus := j.getBool "hasStatus",
    method := if m == "" then none else some m,
    checks := (j.getArr "checks").map checkOfJ }

def selectorOfJ (j : Option J) : Option Selector :=
  match j with
  | none => none
  | some s => match decodeLabelSelector s with
      | .ok ls => (match asSelector ls with | .ok sel => some sel | .error _ => none)
      | .error _ => none

def cfgOfJ (j : J) : Cfg :=
  let ns := j.getBool "parentNamespaced"
  { name := j.getStr "name", parentGroup := "ctl.example.com", parentVersion := "v1",
    parentKind := if ns then "Thing" else "ClusterThing",
    parentResource := if ns then "things" else "clusterthings",
    parentNamespaced := ns, parentHasStatus := j.getBool "parentHasStatus",
    children := (j.getArr "children").map childResOfJ,
    generateSelector := j.getBool "generateSelector",
    parentSelector := selectorOfJ (j.opt "parentSelector"),
    finalize := j.getBool "finalize", customize := j.getBool "customize", ssa := j.getBool "ssa",
    fieldPaths := (j.getD "fieldPaths").strList, related := (j.getArr "related").map childResOfJ,
    ignoreStatusChanges := j.getBool "ignoreStatusChanges" }

def parentResOfJ (j : J) : ParentRes :=
  { apiVersion := j.getStr "apiVersion", resource := j.getStr "resource", kind := j.getStr "kind",
    namespaced := j.getBool "namespaced", hasStatus := j.getBool "hasStatus",
    labelSel := selectorOfJ (j.opt "labelSelector"), annSel := selectorOfJ (j.opt "annotationSelector"),
    ignoreStatusChanges := j.getBool "ignoreStatusChanges" }

def dcfgOfJ (j : J) : DCfg :=
  { name := j.getStr "name", resources := (j.getArr "resources").map parentResOfJ,
    attachments := (j.getArr "attachments").map childResOfJ,
    finalize := j.getBool "finalize", customize := j.getBool "customize", related := (j.getArr "related").map childResOfJ }

/-- the SSA memo as dumped by the harness: [{key, desired, generation}] -/
def memoOfJ (j : J) : Memo :=
  j.items.map (fun e => (e.getStr "key", (e.getD "desired", e.getInt "generation")))

def cacheOfJ (j : J) : Cache :=
  { parents := j.getArr "parents",
    children := (j.getD "children").fields.map (fun kv => (kv.1, kv.2.items)),
    related := (j.getD "related").fields.map (fun kv => (kv.1, kv.2.items)),
    revisions := j.getArr "revisions" }

structure RState where
  recs : List (Rec × Bool)          -- recorded call, consumed?
  mismatches : List String := []
  order : List Nat := []            -- recorded indices in the order the model consumed them
  seenHook : Bool := false
  /-- (group, resource, name) of the parent: classifies a difference by the part of the sync it is in -/
  parentKey : String × String × String := ("", "", "")
  deriving Inhabited

/-- which part of the sync a request belongs to (used to decide which properties a difference concerns) -/
def areaOf (st : RState) (q : Req) : String :=
  match q with
  | .hook _ _ => "hook"
  | .api v t _ _ =>
      if (t.group, t.resource, t.name) == st.parentKey then
        (if v == .updateStatus then "status" else if st.seenHook then "parent" else "finalizer")
      else if t.resource == "controllerrevisions" then "revisions"
      else if st.seenHook then "children" else "claim"

def respOfRec (r : Rec) : Resp :=
  if r.isHook then
    if r.code == 200 then
      match r.hookResp with
      | some b => .hookOk b
      | none => if r.hookRaw.trimAscii.toString == "null" then .hookOk .null else .hookErr "decode"
    else if r.code == 429 then .hook429 r.hookRetryAfter
    else .hookErr "status"
  else if r.ok then .obj r.resp else .err r.reason

def matchesReq (q : Req) (r : Rec) : Bool :=
  match q with
  | .api v t _ _ => !r.isHook && r.verb == v.name && r.group == t.group && r.resource == t.resource && r.ns == t.ns && r.name == t.name
  | .hook n _ => r.isHook && r.hook == n

def consumeWith (p : Rec → Bool) : List (Rec × Bool) → Option (Rec × List (Rec × Bool))
  | [] => none
  | (r, used) :: rest =>
      if !used && p r then some (r, (r, true) :: rest)
      else match consumeWith p rest with
        | some (x, rest') => some (x, (r, used) :: rest')
        | none => none

/-- next unconsumed recorded call with the identity of `q`; hook calls of one sync run in parallel,
    so a recorded call with exactly the model's request is preferred -/
def consume (q : Req) (recs : List (Rec × Bool)) : Option (Rec × List (Rec × Bool)) :=
  match q with
  | .hook _ req =>
      match consumeWith (fun r => matchesReq q r && req.eqv r.hookReq) recs with
      | some x => some x
      | none => consumeWith (matchesReq q) recs
  | _ => consumeWith (matchesReq q) recs

/-- ControllerRevision bodies: claim groups and names are built in Go map-iteration order; compare them as sets -/
def normRevBody (j : J) : J :=
  match j.get? "children" with
  | some (.arr gs) =>
      let gs' := gs.map (fun g => match g.get? "names" with
        | some (.arr ns) => J.obj (setKey "names" (.arr (((ns.filterMap J.str?).toArray.qsort (· < ·)).toList.map J.str)) g.fields)
        | _ => g)
      let sorted := (gs'.toArray.qsort (fun a b => (strAt a ["kind"] ++ "." ++ strAt a ["apiGroup"]) < (strAt b ["kind"] ++ "." ++ strAt b ["apiGroup"]))).toList
      .obj (setKey "children" (.arr sorted) j.fields)
  | _ => j

/-- parent status bodies: the text of a RolloutWaiting message names whichever unhappy child Go's map
    iteration met first; it is dropped before comparing -/
def normStatusBody (j : J) : J :=
  match nestedField j ["status", "conditions"] with
  | .ok (some (.arr cs)) =>
      let cs' := cs.map (fun c => if strAt c ["reason"] == "RolloutWaiting" then J.obj (eraseKey "message" c.fields) else c)
      match setNestedField j (.arr cs') ["status", "conditions"] with
      | .ok j' => j'
      | .error _ => j
  | _ => j

def normBody (j : J) : J := normStatusBody (normRevBody j)

def reqText (q : Req) : String :=
  match q with
  | .api v t _ _ => s!"{v.name} {t.group}/{t.resource} {t.ns}/{t.name}"
  | .hook n _ => s!"hook {n}"

/-- feed the recorded responses to the model; note every difference -/
def replay {α : Type} : Prog α → RState → Nat → Option α × RState
  | .ret a, st, _ => (some a, st)
  | .call _ _, st, 0 => (none, { st with mismatches := st.mismatches ++ ["replay fuel exhausted"] })
  | .call q k, st, fuel + 1 =>
      match consume q st.recs with
      | none =>
        -- a RolloutWaiting message names whichever unhappy child Go's map iteration met first: when the model's status
        -- differs from the live one only in that text, the implementation rightly skipped the write the model wants
        let skipped : Option J := match q with
          | .api .updateStatus t body _ =>
              (st.recs.reverse.find? (fun x => x.2 && x.1.verb == "get" && x.1.ok && x.1.group == t.group && x.1.resource == t.resource &&
                  x.1.ns == t.ns && x.1.name == t.name)).bind (fun x =>
                if ((normStatusBody body).getD "status").eqv ((normStatusBody x.1.resp).getD "status") then some x.1.resp else none)
          | _ => none
        match skipped with
        | some live => replay (k (.obj live)) st fuel
        | none => (none, { st with mismatches := st.mismatches ++ [s!"[{areaOf st q}] model issues a request the implementation did not: {reqText q}"] })
      | some (r, recs') =>
        let diffs : List String :=
          match q with
          | .api v _ body opts =>
              (if v != .get && v != .delete && !((normBody body).eqv (normBody r.body)) then [s!"[{areaOf st q}] body of {reqText q} differs: model {body.render} impl {r.body.render}"] else []) ++
              (if v == .delete && !(opts.eqv r.opts) then [s!"[{areaOf st q}] options of {reqText q} differ: model {opts.render} impl {r.opts.render}"] else [])
          | .hook _ req => if !(req.eqv r.hookReq) then [s!"[hook] {reqText q} request differs: model {req.render} impl {r.hookReq.render}"] else []
        let st' : RState := { recs := recs', mismatches := st.mismatches ++ diffs, order := st.order ++ [r.idx], seenHook := st.seenHook || r.isHook, parentKey := st.parentKey }
        replay (k (respOfRec r)) st' fuel

def unconsumed (st : RState) : List Rec :=
  (st.recs.filter (fun x => !x.2 && x.1.verb != "list" && x.1.verb != "watch" && x.1.verb != "watch-closed")).map (·.1)

def splitKey (key : String) : String × String :=
  match key.splitOn "/" with
  | [n] => ("", n)
  | ns :: rest => (ns, "/".intercalate rest)
  | [] => ("", "")

def outcomeName : Outcome → String
  | .ok => "ok" | .error => "error" | .panic => "panic"

/-- addAfter delays recorded by the queue, in order -/
def recordedAfter (result : J) : List Int :=
  (result.getArr "queue").filterMap (fun op => if op.getStr "op" == "addAfter" then some (op.getInt "arg") else none)

end Mc.Drv
