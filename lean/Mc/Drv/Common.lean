import Mc.Io
import Mc.Generated
namespace Mc.Drv

/-- result of one case -/
structure Res where
  agree : Bool := true
  where_ : String := ""
  /-- property id → held on this (real) trace; absent = not judged -/
  props : List (String × Bool) := []
  clause : String := ""
  /-- tags describing which interesting branches the case reached -/
  tags : List String := []
  /-- canonical text used to count distinct cases -/
  sig : String := ""
  /-- id of a recorded finding whose shape this failing case has ("" = none) -/
  finding : String := ""

def Res.toJ (r : Res) (caseNo : J) : J :=
  .obj [("case", caseNo), ("agree", .bool r.agree), ("where", .str r.where_),
        ("props", .obj (r.props.map fun (k, v) => (k, .bool v))), ("clause", .str r.clause),
        ("tags", .arr (r.tags.map .str)), ("sig", .str r.sig), ("finding", .str r.finding)]

def fail (r : Res) (p : String) (clause : String) : Res :=
  { r with props := (r.props.filter (·.1 != p)) ++ [(p, false)],
           clause := if r.clause == "" then clause else r.clause }

def pass (r : Res) (p : String) : Res :=
  if r.props.any (·.1 == p) then r else { r with props := r.props ++ [(p, true)] }

def disagree (r : Res) (w : String) : Res :=
  if r.agree then { r with agree := false, where_ := w } else r

def tag (r : Res) (t : String) : Res := if r.tags.contains t then r else { r with tags := r.tags ++ [t] }

end Mc.Drv
