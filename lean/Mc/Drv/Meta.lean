import Mc.Drv.SyncHandle
import Mc.Meta
/- Driver side of the "meta" lines (histories of CompositeController / DecoratorController events). -/
namespace Mc.Drv
open Mc.Meta

def classOf (cls : String) : Class × List String :=
  let base := ["things.ctl.example.com/v1", "widgets.example.com/v1"]
  match cls with
  | "ok" | "ok-etag" | "ok-finalize" | "ok-resync" => (.ok, base)
  | "ok2" => (.ok, base ++ ["configmaps.v1"])
  -- the related informer is opened by the first sync of a parent (every event ends after the running instances synced one)
  | "ok-customize" => (.ok, base ++ ["configmaps.v1"])
  | "badparent" => (.early true, [])
  | "nostatus" => (.early false, [])
  | "badchild" => (.failing base, [])
  | "nohooks" => (.failing base, [])
  | "badwebhook" => (.failing base, [])
  | "badselector" => (.failing base, [])
  -- decorator: the constructor opens its informers last, after every check that can fail
  | _ => (.failing [], [])

def startable (cls : String) : Bool := (classOf cls).1 == .ok

def handleMeta (c : J) : Res := Id.run do
  let evs := c.getArr "events"
  let mut r : Res := { sig := (J.obj [("ctl", c.getD "ctl"), ("events", .arr (evs.map (fun e => J.obj (e.fields.filter (fun kv => ["name", "type", "class", "ver"].contains kv.1)))))]).render }
  let mut st : State := {}
  -- what the API holds per name (for the specification): name ↦ (class, ver)
  let mut api : List (String × (String × Nat)) := []
  let mut wantRunning : List (String × String) := []   -- specification: name ↦ hook path
  let mut verdict : Option String := none
  let mut prevInst : List (String × String) := []      -- identity of the hosted instances after the previous event
  for (e, i) in evs.zipIdx do
    let name := e.getStr "name"
    let typ := e.getStr "type"
    let cls := e.getStr "class"
    let ver := (e.getInt "ver").toNat
    let (k, res) := classOf cls
    let obs : Option Spec := if typ == "delete" then none else some { ver, cls := k, resources := res }
    let (st', out) := reconcile st name obs
    st := st'
    r := tag r ("meta-" ++ typ)
    if out.started then r := tag r "started"
    if out.stopped then r := tag r "stopped"
    if e.getBool "inflight" then r := tag r "stopped-mid-sync"
    -- model vs implementation
    let implRunning := ((e.getD "running").fields.map (fun kv => (kv.1, kv.2.strD ""))).toArray.qsort (fun a b => a.1 < b.1) |>.toList
    let modelRunning := (st.running.map (fun (n, sp) => (n, s!"sync-{n}-{sp.ver}"))).toArray.qsort (fun a b => a.1 < b.1) |>.toList
    if implRunning != modelRunning then r := disagree r s!"[meta] event {i} ({typ} {name} {cls}): model runs {modelRunning}, implementation {implRunning}"
    if out.error != e.getBool "error" then r := disagree r s!"[meta] event {i} ({typ} {name} {cls}): model error={out.error}, implementation error={e.getBool "error"}"
    let implRc := ((e.getD "refCount").fields.map (fun kv => (kv.1, (kv.2.int?.getD 0).toNat)))
    if !(st.subs.all (fun x => implRc.contains x) && implRc.all (fun x => st.subs.contains x)) then
      r := disagree r s!"[meta] event {i}: model subscriptions {st.subs}, implementation {implRc}"
    -- specification (C20), written from the statement, on the implementation's observations
    api := (api.filter (·.1 != name)) ++ (if typ == "delete" then [] else [(name, (cls, ver))])
    if typ == "delete" then wantRunning := wantRunning.filter (·.1 != name)
    else if typ == "noop-update" && (wantRunning.lookup name).isSome then pure ()     -- an update that leaves the spec alone does nothing
    else
      wantRunning := wantRunning.filter (·.1 != name)
      if startable cls then wantRunning := wantRunning ++ [(name, s!"sync-{name}-{ver}")]
    let called := (e.getD "called").strList
    let inst := (e.getD "instances").fields.map (fun kv => (kv.1, kv.2.strD ""))
    -- "an update that leaves the spec unchanged does nothing", "other controllers are untouched": the instance object of
    -- a controller the event is not about, and of the controller of a no-op update, is the one that ran before
    let mustKeep := prevInst.filter (fun (n, _) => n != name || typ == "noop-update")
    let instClause := firstSome mustKeep (fun (n, id) => check (inst.lookup n == some id)
      s!"event {i} ({typ} {name} {cls}): the running instance of controller {n} was replaced or stopped although nothing about it changed")
    prevInst := inst
    let wantSubs : List (String × Nat) := (wantRunning.flatMap (fun (n, _) => match api.lookup n with
        | some (cl, _) => (classOf cl).2
        | none => [])).foldl incr []
    if verdict.isNone then
      verdict :=
        orElse (check (e.getStr "panic" == "") s!"event {i} ({typ} {name} {cls}): Reconcile panicked: {e.getStr "panic"}") fun _ =>
        orElse instClause fun _ =>
        orElse (firstSome wantRunning (fun (n, p) => check (implRunning.lookup n == some p) s!"event {i} ({typ} {name} {cls}): controller {n} must be running with the configuration {p}, found {implRunning.lookup n}")) fun _ =>
        orElse (firstSome implRunning (fun (n, p) => check (wantRunning.lookup n == some p) s!"event {i} ({typ} {name} {cls}): an instance {p} of controller {n} is running although its object was deleted, changed, or cannot start")) fun _ =>
        orElse (firstSome wantRunning (fun (_, p) => check (called.contains p) s!"event {i}: the running instance {p} did not sync a changed parent")) fun _ =>
        orElse (firstSome called (fun p => check (wantRunning.any (·.2 == p)) s!"event {i} ({typ} {name} {cls}): a hook call was made on behalf of {p}, which is not (or no longer) running")) fun _ =>
        check (wantSubs.all (fun x => implRc.contains x) && implRc.all (fun x => wantSubs.contains x))
          s!"event {i} ({typ} {name} {cls}): informer subscriptions {implRc} differ from those of the running instances {wantSubs}"
  let final := (c.getD "finalRefCount").fields
  if verdict.isNone then verdict := check final.isEmpty s!"subscriptions left after every controller was stopped: {final.map (·.1)}"
  r := judge r "C20" verdict
  return r

end Mc.Drv
