import Mc.Drv.Sync
import Mc.Spec.EventSpec
import Mc.Spec.RelatedOracle
import Mc.Drv.SyncHandle
/- Driver side of the "event" lines: the model's enqueue set, the specification's, and the real queue. -/
namespace Mc.Drv

def sortStrs (xs : List String) : List String := (xs.toArray.qsort (· < ·)).toList

def evTypeOf (s : String) : EvType := if s == "update" then .update else if s == "delete" then .delete else .add

def handleEvent (c : J) : Res := Id.run do
  let composite := c.getStr "ctl" == "composite"
  let parents := c.getArr "parents"
  let role := c.getStr "role"
  let ev : Event := { type := evTypeOf (c.getStr "type"), tombstone := c.getBool "tombstone", old := c.getD "old", obj := c.getD "obj" }
  let answers := (c.getD "answers").fields
  let answer : J → Option J := fun p => lookup (getUID p) answers
  let queue := sortStrs ((c.getD "queue").strList)
  let mut r : Res := { sig := (J.obj [("cfg", c.getD "cfg"), ("role", .str role), ("type", c.getD "type"), ("tomb", c.getD "tombstone"),
                                       ("old", c.getD "old"), ("obj", c.getD "obj"), ("parents", c.getD "parents")]).render }
  r := tag r (role ++ "-" ++ c.getStr "type")
  if ev.tombstone then r := tag r "tombstone"
  if !queue.isEmpty then r := tag r "enqueued"
  if queue.length > 1 then r := tag r "fan-out"
  if c.getBool "panic" then
    r := fail (disagree r "the handler panicked") "C14" "an event handler panicked"
    return r
  -- model and specification
  let (model, spec) : List String × List String :=
    if composite then
      let cfg := cfgOfJ (c.getD "cfg")
      match role with
      | "parent" => (cfg.onParent ev, if EvSpec.parentWoken cfg ev then [metaKey ev.obj] else [])
      | "child" => (cfg.onChild parents ev, (parents.filter (EvSpec.childWakes cfg ev)).map metaKey)
      | _ => (cfg.onRelated parents answer ev, (parents.filter (EvSpec.relatedWakes cfg answer ev)).map metaKey)
    else
      let cfg := dcfgOfJ (c.getD "cfg")
      match role with
      | "parent" => (cfg.onParent ev, if EvSpec.dParentWoken cfg ev then [decoratorKey ev.obj] else [])
      | "child" => (cfg.onChild parents ev, (parents.filter (EvSpec.dChildWakes cfg ev)).map decoratorKey)
      | _ => (cfg.onRelated parents answer ev, [])
  if sortStrs model != queue then
    r := disagree r s!"[events] {role} {c.getStr "type"}: model enqueues {sortStrs model}, implementation {queue}"
  -- C14 oracle: the real queue holds exactly the parents the specification names
  -- (keys are compared as sets: a parent woken through two rules is still one key)
  let specSet := sortStrs spec.eraseDups
  let queueSet := sortStrs queue.eraseDups
  if !composite && role == "related" then r := pass r "C14"
  else r := judge r "C14" (
    orElse (firstSome specSet (fun k => check (queueSet.contains k) s!"{role} {c.getStr "type"} event: parent {k} must be queued but was not")) fun _ =>
    firstSome queueSet (fun k => check (specSet.contains k) s!"{role} {c.getStr "type"} event: {k} was queued although the event does not concern it"))
  -- C15: every object the parent's rules select wakes the parent (listed => triggers): judged on related events
  if role == "related" && composite then
    let cfg := cfgOfJ (c.getD "cfg")
    let replay := ev.type == .update && getResourceVersion ev.old == getResourceVersion ev.obj
    let states := if ev.type == .update then [ev.old, ev.obj] else [ev.obj]
    r := judge r "C15" (
      if replay then none else
      firstSome parents (fun p =>
        if cfg.ignored p then none else
        check (!(relatedMustWake cfg.parentNamespaced cfg.related p (answer p) states) || queueSet.contains (metaKey p))
          s!"{getName ev.obj} is selected by the rules of parent {metaKey p}, but its {c.getStr "type"} did not queue that parent"))
    if (parents.any (fun p => relatedMustWake cfg.parentNamespaced cfg.related p (answer p) states)) then r := tag r "related-selected"
  return r

end Mc.Drv
