import Mc.Drv.SyncHandle
import Mc.Spec.RoundsOracles
/- Driver side of the scenario summaries ("rounds" lines of TestVerifRounds). No model replay here: every
   sync of the scenario was already written (and replayed) as a "sync" line; these lines carry the
   cross-round figures the liveness / convergence oracles need. -/
namespace Mc.Drv

def handleRounds (c : J) : Res := Id.run do
  let mut r : Res := { sig := (J.obj [("mode", c.getD "mode"), ("cfg", c.getD "cfg"), ("rounds", c.getD "rounds")]).render }
  let mode := c.getStr "mode"
  r := tag r ("rounds-" ++ mode)
  match mode with
  | "converge" =>
      match oracleC01Rounds c with
      | none => r := tag r "excluded-foreign"
      | some v => r := tag (judge r "C01" v) "judged-converge"
  | "rollout" =>
      r := judge r "C08" (oracleC08Rounds c)
      if c.getInt "secondChangeAt" ≥ 0 then r := tag r "second-change"
  | "crash" =>
      r := judge r "C09" (oracleC09Rounds c)
  | "faults" =>
      r := judge r "C12" (oracleC12Rounds c)
  | _ => pure ()
  return r

end Mc.Drv
