import Mc.Json
/-
  Model of pkg/dynamic/apply/apply.go: `merge`, `mergeObject`, `mergeArray`,
  `detectListMapKey`, `mergeListMap`, `makeListMap`, `stringMergeKey`.
  The conventional merge keys are a parameter (`mks`); the driver passes the list
  that the fact extractor reads from the source on every run.
-/
namespace Mc

/-- fmt.Sprintf("%v") on scalar merge-key values (composite key values are outside the modelled domain) -/
def stringMergeKey : J → String
  | .str s => s
  | .num n => toString n
  | .bool b => toString b
  | .null => "<nil>"
  | _ => "<composite>"

def lastObj : Option J → KVs
  | some (.obj l) => l
  | _ => []

def lastArr : Option J → List J
  | some (.arr l) => l
  | _ => []

/-- keys of `d` that survive: not (in last ∧ not in desired) -/
def prune (d ls ds : KVs) : KVs :=
  d.filter (fun kv => !(hasKey kv.1 ls && !hasKey kv.1 ds))

/-- fold step of `detectListMapKey`: `none` = saw a non-object; `some none` = nothing seen yet -/
def commonStep (acc : Option (Option (List String))) (item : J) : Option (Option (List String)) :=
  match acc, item with
  | none, _ => none
  | some none, .obj kvs => some (some (keysOf kvs))
  | some (some ks), .obj kvs => some (some (ks.filter (fun k => hasKey k kvs)))
  | _, _ => none

def commonKeys (lists : List (List J)) : Option (Option (List String)) :=
  (lists.flatten).foldl commonStep (some none)

def detectListMapKey (mks : List String) (lists : List (List J)) : Option String :=
  match commonKeys lists with
  | some (some ks) => mks.find? (fun k => ks.contains k)
  | _ => none

def keyOf (mk : String) (item : J) : String :=
  stringMergeKey ((lookup mk item.fields).getD .null)

/-- makeListMap: later duplicates win -/
def makeListMap (mk : String) (items : List J) : KVs :=
  items.foldl (fun m it => setKey (keyOf mk it) it m) []

/-- second loop of the rebuild in `mergeListMap` -/
def restItems (mk : String) (merged : KVs) : List J → List String → List J
  | [], _ => []
  | it :: rest, seen =>
      let k := keyOf mk it
      if seen.contains k then restItems mk merged rest seen
      else (lookup k merged).getD .null :: restItems mk merged rest (k :: seen)

def rebuild (mk : String) (xs : List J) (merged : KVs) (ds : List J) : List J :=
  let first := xs.filterMap (fun it => lookup (keyOf mk it) merged)
  let seen := (xs.map (keyOf mk)).filter (fun k => hasKey k merged)
  first ++ restItems mk merged ds seen

mutual
def merge (mks : List String) (dest : J) (last : Option J) (des : J) : Except String J :=
  match dest, des with
  | .obj d, .obj ds => mergeFields mks (prune d (lastObj last) ds) (lastObj last) ds
  | .obj d, .null => .ok (.obj (prune d (lastObj last) []))
  | .obj _, _ => .error "desired: expecting map"
  | .arr xs, .arr ds =>
      match detectListMapKey mks [xs, lastArr last, ds] with
      | none => .ok (.arr ds)
      | some mk =>
        let destMap := makeListMap mk xs
        let lastMap := makeListMap mk (lastArr last)
        let desKeys := ds.map (keyOf mk)
        let pruned := destMap.filter (fun kv => !(hasKey kv.1 lastMap && !desKeys.contains kv.1))
        match mergeItems mks mk pruned lastMap ds with
        | .error e => .error e
        | .ok merged => .ok (.arr (rebuild mk xs merged ds))
  | .arr xs, .null =>
      match detectListMapKey mks [xs, lastArr last, []] with
      | none => .ok .null
      | some mk =>
        let destMap := makeListMap mk xs
        let lastMap := makeListMap mk (lastArr last)
        let merged := destMap.filter (fun kv => !(hasKey kv.1 lastMap))
        .ok (.arr (rebuild mk xs merged []))
  | .arr _, _ => .error "desired: expecting array"
  | _, des => .ok des
termination_by structural des

def mergeFields (mks : List String) (d : KVs) (ls : KVs) (ds : KVs) : Except String J :=
  match ds with
  | [] => .ok (.obj d)
  | (k, v) :: rest =>
      match merge mks ((lookup k d).getD .null) (lookup k ls) v with
      | .ok m => mergeFields mks (setKey k m d) ls rest
      | .error e => .error e
termination_by structural ds

def mergeItems (mks : List String) (mk : String) (d : KVs) (ls : KVs) (items : List J) : Except String KVs :=
  match items with
  | [] => .ok d
  | it :: rest =>
      let k := keyOf mk it
      if (rest.map (keyOf mk)).contains k then mergeItems mks mk d ls rest
      else
        match merge mks ((lookup k d).getD .null) (lookup k ls) it with
        | .ok m => mergeItems mks mk (setKey k m d) ls rest
        | .error e => .error e
termination_by structural items
end

/-- `apply.Merge(observed, lastApplied, desired)`; `last = none` is a nil map -/
def mergeTop (mks : List String) (observed : J) (last : Option J) (desired : J) : Except String J :=
  merge mks observed last desired

end Mc
