import Mc.Sync.Composite
/-
  Model of pkg/controller/composite/controller_revision.go and rolling_update.go:
  claimRevisions, makePatch/applyPatch, newControllerRevision, syncRevisionClaims,
  syncRollingUpdate, shouldContinueRolling, childStatusCheck, pruneParentRevisions,
  manageRevisions, the overlay of old revisions' desired children, SetCondition.
-/
namespace Mc

def revGroup : String := "metacontroller.k8s.io"
def revResource : String := "controllerrevisions"

/-- claim group of a ControllerRevision -/
structure CGroup where
  apiGroup : String
  kind : String
  names : List String
  deriving Repr, BEq, DecidableEq, Inhabited

def CGroup.ofJ (j : J) : CGroup :=
  { apiGroup := strAt j ["apiGroup"], kind := strAt j ["kind"],
    names := match j.get? "names" with | some (.arr xs) => xs.filterMap J.str? | _ => [] }

def CGroup.toJ (g : CGroup) : J :=
  .obj [("apiGroup", .str g.apiGroup), ("kind", .str g.kind), ("names", .arr (g.names.map .str))]

/-- `revision.Children`: `none` = nil slice (field absent) -/
def revChildren (rev : J) : Option (List CGroup) :=
  match rev.get? "children" with
  | some (.arr xs) => some (xs.map CGroup.ofJ)
  | _ => none

/-- typed marshalling: `children,omitempty` -/
def setRevChildren (rev : J) (gs : List CGroup) : J :=
  match gs with
  | [] => .obj (eraseKey "children" rev.fields)
  | _ => .obj (setKey "children" (.arr (gs.map CGroup.toJ)) rev.fields)

/-- `makePatch(src, fieldPaths)` -/
def makePatch (src : J) (fieldPaths : List String) : Except String J :=
  fieldPaths.foldlM (fun (patch : J) fp =>
    let parts := fp.splitOn "."
    match nestedField src parts with
    | .error e => .error e
    | .ok none => .ok patch
    | .ok (some v) => setNestedField patch v parts) (.obj [])

/-- `applyPatch(dest, patch, fieldPaths)` -/
def applyPatch (dest patch : J) (fieldPaths : List String) : Except String J :=
  fieldPaths.foldlM (fun (d : J) fp =>
    let parts := fp.splitOn "."
    match nestedField patch parts with
    | .error e => .error e
    | .ok none => .ok d
    | .ok (some v) => setNestedField d v parts) dest

def Cfg.effectiveFieldPaths (c : Cfg) : List String := if c.fieldPaths.isEmpty then ["spec"] else c.fieldPaths

def isRollingMethod (m : Option String) : Bool := m == some "RollingInPlace" || m == some "RollingRecreate"

/-- `updateStrategyMap.get`: OnDelete entries are never stored -/
def Cfg.strategy (c : Cfg) (group kind : String) : Option ChildRes :=
  match c.children.find? (fun ch => ch.group == group && ch.kind == kind) with
  | some ch => if ch.method.isNone || ch.method == some "OnDelete" then none else some ch
  | none => none

def Cfg.isRolling (c : Cfg) (group kind : String) : Bool :=
  match c.strategy group kind with
  | some ch => isRollingMethod ch.method
  | none => false

def Cfg.anyRolling (c : Cfg) : Bool :=
  c.children.any (fun ch => isRollingMethod ch.method)

/-- one materialised parent revision -/
structure PRev where
  parent : J
  /-- the ControllerRevision object (as JSON), children kept separately -/
  revision : J
  children : List CGroup
  /-- hook answer for this revision -/
  resp : CompResp
  /-- `desiredChildMap` (relative names) -/
  desired : ObjMap
  deriving Inhabited

def PRev.name (p : PRev) : String := getName p.revision

def PRev.count (p : PRev) : Nat := (p.children.map (·.names.length)).foldl (· + ·) 0

/-- `addChild` -/
def addChild (gs : List CGroup) (apiGroup kind name : String) : List CGroup :=
  if gs.any (fun g => g.apiGroup == apiGroup && g.kind == kind) then
    -- only the first matching group is used
    let rec go : List CGroup → List CGroup
      | [] => []
      | g :: rest =>
          if g.apiGroup == apiGroup && g.kind == kind then
            (if g.names.contains name then g else { g with names := g.names ++ [name] }) :: rest
          else g :: go rest
    go gs
  else gs ++ [{ apiGroup, kind, names := [name] }]

/-- `removeChild`: first matching group, first occurrence -/
def removeChild (gs : List CGroup) (apiGroup kind name : String) : List CGroup :=
  let rec go : List CGroup → List CGroup
    | [] => []
    | g :: rest =>
        if g.apiGroup == apiGroup && g.kind == kind then { g with names := g.names.erase name } :: rest
        else g :: go rest
  go gs

/-- claim map: (kind.group, name) ↦ index of the claiming parent revision -/
abbrev Claims := List ((String × String) × Nat)

def claimKey (apiGroup kind : String) : String := kind ++ "." ++ apiGroup

def Claims.get (cl : Claims) (apiGroup kind name : String) : Option Nat :=
  (cl.find? (fun e => e.1.1 == claimKey apiGroup kind && e.1.2 == name)).map (·.2)

def Claims.set (cl : Claims) (apiGroup kind name : String) (i : Nat) : Claims :=
  (cl.filter (fun e => !(e.1.1 == claimKey apiGroup kind && e.1.2 == name))) ++ [((claimKey apiGroup kind, name), i)]

/-- filter the names of one claim group (`syncRevisionClaims`, inner loop) -/
def filterNames (c : Cfg) (latestDesired : ObjMap) (g : CGroup) (i : Nat) : List String → Claims → List String × Claims
  | [], cl => ([], cl)
  | n :: rest, cl =>
      if (latestDesired.findGK g.apiGroup g.kind n).isNone then filterNames c latestDesired g i rest cl
      else if (cl.get g.apiGroup g.kind n).isSome then filterNames c latestDesired g i rest cl
      else
        let (ns, cl') := filterNames c latestDesired g i rest (cl.set g.apiGroup g.kind n i)
        (n :: ns, cl')

def filterGroups (c : Cfg) (latestDesired : ObjMap) (i : Nat) : List CGroup → Claims → List CGroup × Claims
  | [], cl => ([], cl)
  | g :: rest, cl =>
      if !c.isRolling g.apiGroup g.kind then filterGroups c latestDesired i rest cl
      else
        let (names, cl1) := filterNames c latestDesired g i g.names cl
        let (gs, cl2) := filterGroups c latestDesired i rest cl1
        if names.isEmpty then (gs, cl2) else ({ g with names := names } :: gs, cl2)

/-- `syncRevisionClaims` (with the filtered names persisted) -/
def syncRevisionClaims (c : Cfg) (latestDesired : ObjMap) : List PRev → Nat → Claims → List PRev × Claims
  | [], _, cl => ([], cl)
  | p :: rest, i, cl =>
      let (gs, cl1) := filterGroups c latestDesired i p.children cl
      let (ps, cl2) := syncRevisionClaims c latestDesired rest (i + 1) cl1
      ({ p with children := gs } :: ps, cl2)

/-- `GetStatusCondition` -/
def getStatusCondition (o : J) (type : String) : Option J :=
  match nestedField o ["status", "conditions"] with
  | .ok (some (.arr xs)) => xs.find? (fun x => x.isObj && (x.get? "type") == some (.str type))
  | _ => none

/-- `childStatusCheck` -/
def childStatusCheck (checks : List Check) (child : J) : Bool :=
  checks.all (fun ck =>
    match getStatusCondition child ck.type with
    | none => false
    | some cond =>
      (match ck.status with | some s => strAt cond ["status"] == s | none => true) &&
      (match ck.reason with | some s => strAt cond ["reason"] == s | none => true))

/-- is one child of the latest revision "happy"? `none` = yes, `some msg` = why not -/
def childHappy (c : Cfg) (st : ChildRes) (observedRel : ObjMap) (latestDesired : ObjMap) (g : CGroup) (name : String) : Option String :=
  match observedRel.findGK g.apiGroup g.kind name with
  | none => some s!"missing child {g.kind} {name}"
  | some child =>
    let upd := (latestDesired.findGK g.apiGroup g.kind name).getD (.obj [])
    match applyUpdate Generated.knownMergeKeys Generated.objectMetaSystemFields child upd with
    | .error _ => some s!"can't check if child {g.kind} {name} is updated"
    | .ok updated =>
      if !(child.eqv updated) then some s!"child {g.kind} {name} is not updated yet"
      else
        let og : Int := match nestedField child ["status", "observedGeneration"] with | .ok (some (.num n)) => n | _ => 0
        if st.method == some "RollingInPlace" && og > 0 && og < getGeneration child then
          some s!"child {g.kind} {name} with RollingInPlace update strategy hasn't observed latest spec"
        else if !childStatusCheck st.checks child then some s!"child {g.kind} {name} failed status check"
        else none

/-- `shouldContinueRolling` -/
def shouldContinueRolling (c : Cfg) (latest : PRev) (observedRel : ObjMap) : Option String :=
  latest.children.findSome? (fun g =>
    match c.strategy g.apiGroup g.kind with
    | none => none
    | some st =>
      if !isRollingMethod st.method then none
      else g.names.findSome? (fun n => childHappy c st observedRel latest.desired g n))

/-- `SetCondition(status, cond)` (with the write-back) ; error when `conditions` is present and not a list - an explicit
    `null` included (`unstructured.NestedSlice` finds the key and fails the type assertion) -/
def setCondition (status : KVs) (cond : J) : Except String KVs :=
  match lookup "conditions" status with
  | none => .ok (setKey "conditions" (.arr [cond]) status)
  | some (.arr xs) =>
      let ty := cond.get? "type"
      if xs.any (fun x => x.isObj && x.get? "type" == ty && (ty.bind J.str?).isSome) then
        -- first match replaced
        let rec go : List J → List J
          | [] => []
          | x :: rest => if x.isObj && x.get? "type" == ty then cond :: rest else x :: go rest
        .ok (setKey "conditions" (.arr (go xs)) status)
      else .ok (setKey "conditions" (.arr (xs ++ [cond])) status)
  | some _ => .error "status.conditions is not a list"

def condJ (status reason message : String) : J :=
  .obj [("type", .str "Updated"), ("status", .str status), ("reason", .str reason), ("message", .str message)]

/-- immediate moves: first loop of `syncRollingUpdate` over the latest revision's desired children -/
def immediateMoves (c : Cfg) (observedRel : ObjMap) : List (GVK × String × J) → List PRev → Claims → List PRev × Claims
  | [], prs, cl => (prs, cl)
  | (gvk, name, des) :: rest, prs, cl =>
      if !c.isRolling gvk.group gvk.kind then immediateMoves c observedRel rest prs cl
      else
        match cl.get gvk.group gvk.kind name with
        | none =>
            let prs' := prs.mapIdx (fun i p => if i == 0 then { p with children := addChild p.children gvk.group gvk.kind name } else p)
            immediateMoves c observedRel rest prs' (cl.set gvk.group gvk.kind name 0)
        | some 0 => immediateMoves c observedRel rest prs cl
        | some j =>
            match observedRel.findGK gvk.group gvk.kind name with
            | none => immediateMoves c observedRel rest prs cl
            | some child =>
              match applyUpdate Generated.knownMergeKeys Generated.objectMetaSystemFields child des with
              | .error _ => immediateMoves c observedRel rest prs cl
              | .ok updated =>
                if child.eqv updated then
                  let prs' := prs.mapIdx (fun i p =>
                    if i == 0 then { p with children := addChild p.children gvk.group gvk.kind name }
                    else if i == j then { p with children := removeChild p.children gvk.group gvk.kind name }
                    else p)
                  immediateMoves c observedRel rest prs' (cl.set gvk.group gvk.kind name 0)
                else immediateMoves c observedRel rest prs cl

/-- the gated move: walk the latest hook result in order -/
def gatedMove (c : Cfg) (observedRel : ObjMap) (prs : List PRev) (cl : Claims) : List J → List PRev × J
  | [] =>
      let latest := prs.headD default
      (prs, condJ "True" "OnLatestRevision" s!"latest ControllerRevision: {latest.name}")
  | child :: rest =>
      let g := apiGroup (getAPIVersion child)
      let kind := getKind child
      let name := getName child
      if !c.isRolling g kind then gatedMove c observedRel prs cl rest
      else if cl.get g kind name == some 0 then gatedMove c observedRel prs cl rest
      else
        match shouldContinueRolling c (prs.headD default) observedRel with
        | some msg => (prs, condJ "False" "RolloutWaiting" msg)
        | none =>
          let prs' := prs.mapIdx (fun i p =>
            if i == 0 then { p with children := addChild p.children g kind name }
            else { p with children := removeChild p.children g kind name })
          (prs', condJ "False" "RolloutProgressing" s!"updating {kind} {name}")

/-- `syncRollingUpdate`: returns the revisions with their new claims and the latest hook status with
    the rollout condition set -/
def syncRollingUpdate (c : Cfg) (prs : List PRev) (observed : ObjMap) : Except String (List PRev × KVs) :=
  let latest := prs.headD default
  let (prs1, cl) := syncRevisionClaims c latest.desired prs 0 []
  let observedRel := observed.convert (getNamespace latest.parent)
  let flat : List (GVK × String × J) := latest.desired.flatMap (fun g => g.2.map (fun no => (g.1, no.1, no.2)))
  let (prs2, cl2) := immediateMoves c observedRel flat prs1 cl
  let (prs3, cond) := gatedMove c observedRel prs2 cl2 (latest.resp.children.filterMap id)
  match setCondition (latest.resp.status.getD []) cond with
  | .ok st => .ok (prs3, st)
  | .error e => .error e

end Mc

namespace Mc

def revTarget (ns name : String) : Target := { group := revGroup, resource := revResource, ns := ns, name := name }

/-- `claimRevisions` -/
def claimRevisions (c : Cfg) (cache : Cache) (parent : J) : PE (List J) := do
  let selector ← PE.ofExcept (c.makeSelector parent [(Generated.labelKeyAPIGroup, c.parentGroup), (Generated.labelKeyResource, c.parentResource)])
  let ns := getNamespace parent
  let all := if ns == "" then cache.revisions else cache.revisions.filter (fun r => getNamespace r == ns)
  let cx : ClaimCtx := { parentT := c.parentTarget parent, parent,
                         parentRef := controllerRefTo c.parentAPIVersion c.parentKind parent, selector,
                         childT := fun o => revTarget ns (getName o), goneReason := "Gone", typed := true,
                         clientRefuses := ns == "" }
  let (claimed, errs) ← PE.lift (claimAll cx all none)
  if !errs.isEmpty then PE.fail "can't claim ControllerRevisions" else pure claimed

/-- `newControllerRevision`; the name (a SHA-1 over UID and patch text) is supplied by the caller -/
def newControllerRevision (c : Cfg) (parent patch : J) (name : String) : Except String J := do
  let labels : KVs ←
    if c.generateSelector then pure [("controller-uid", J.str (getUID parent))]
    else match nestedField parent ["spec", "template", "metadata", "labels"] with
      | .error _ => .error "invalid labels on parent"
      | .ok none => pure []
      | .ok (some (.obj kvs)) => if kvs.all (fun kv => kv.2.str?.isSome) then pure kvs else .error "invalid labels on parent"
      | .ok (some _) => .error "invalid labels on parent"
  let labels := setKey Generated.labelKeyResource (.str c.parentResource) (setKey Generated.labelKeyAPIGroup (.str c.parentGroup) labels)
  let md : KVs := [("name", .str name)] ++ (if getNamespace parent == "" then [] else [("namespace", .str (getNamespace parent))]) ++
    [("labels", .obj labels), ("ownerReferences", .arr [(controllerRefTo (getAPIVersion parent) (getKind parent) parent).toJ])]
  pure (.obj [("apiVersion", .str "metacontroller.k8s.io/v1alpha1"), ("kind", .str "ControllerRevision"), ("metadata", .obj md), ("parentPatch", patch)])

/-- `addGeneratedSelectorLabel`: with selector generation every desired child gets the controller-uid
    label before the rollout compares it with observed children (malformed labels are left alone) -/
def addUidLabel (uid : String) (o : J) : J :=
  match nestedField o ["metadata", "labels"] with
  | .ok none => setStringMapAt o ["metadata", "labels"] (some [("controller-uid", .str uid)])
  | .ok (some (.obj kvs)) =>
      if kvs.all (fun kv => kv.2.str?.isSome) && !hasKey "controller-uid" kvs then
        setStringMapAt o ["metadata", "labels"] (some (setKey "controller-uid" (.str uid) kvs))
      else o
  | _ => o

def labelResp (c : Cfg) (latestParent : J) (resp : CompResp) : CompResp :=
  if c.generateSelector then { resp with children := resp.children.map (Option.map (addUidLabel (getUID latestParent))) } else resp

/-- hook calls for all parent revisions; all are made, the first error (in list order) is reported -/
def callHooks (c : Cfg) (latestParent : J) (observed related : ObjMap) : List (J × J × List CGroup) → Prog (List (Except Err PRev))
  | [] => pure []
  | (p, rev, ch) :: rest => do
      let r ← callHookComposite c p observed related
      let rs ← callHooks c latestParent observed related rest
      let x : Except Err PRev := match r with
        | .ok resp0 =>
            let resp := labelResp c latestParent resp0
            .ok { parent := p, revision := rev, children := ch, resp,
                  desired := (resp.children.filterMap id).foldl (fun acc o => acc.insertRelative (getNamespace latestParent) o) [] }
        | .error e => .error e
      pure (x :: rs)

/-- typed `DeepEqual(old, new)` on ControllerRevisions whose only difference can be the children:
    a nil slice (field absent) never equals the non-nil slice the sync always builds -/
def revUnchanged (observed : J) (newChildren : List CGroup) : Bool :=
  match revChildren observed with
  | none => false
  | some gs => gs == newChildren

/-- `manageRevisions`: the first failure aborts -/
def manageRevisions (ns : String) (observed : List J) (desired : List (J × List CGroup)) : PE Unit := do
  let desiredNames := desired.map (fun d => getName d.1)
  -- ControllerRevisions are namespaced: with a cluster-scoped parent the typed client refuses every
  -- request (empty namespace) before sending it, so the first needed write fails the sync
  let needsWrite := observed.any (fun rev => !desiredNames.contains (getName rev)) ||
    desired.any (fun d => match observed.find? (fun o => getName o == getName d.1) with
      | some old => !revUnchanged old d.2
      | none => true)
  if ns == "" && needsWrite then PE.fail "an empty namespace may not be set" else
  observed.forM (fun rev => do
    if desiredNames.contains (getName rev) then pure ()
    else
      let r ← PE.lift (api .delete (revTarget ns (getName rev)) .null (.obj [("preconditions", .obj [("uid", .str (getUID rev))])]))
      match r with
      | .err e => PE.fail s!"can't delete ControllerRevision: {e}"
      | _ => pure ())
  desired.forM (fun d => do
    let (rev, ch) := d
    match observed.find? (fun o => getName o == getName rev) with
    | some old =>
      if revUnchanged old ch then pure ()
      else
        let r ← PE.lift (api .update (revTarget ns (getName rev)) (setRevChildren old ch))
        match r with
        | .err e => PE.fail s!"can't update ControllerRevision: {e}"
        | _ => pure ()
    | none =>
      let r ← PE.lift (api .create (revTarget ns (getName rev)) (setRevChildren rev ch))
      match r with
      | .err e => PE.fail s!"can't create ControllerRevision: {e}"
      | _ => pure ())

/-- `ReplaceObjectIfExists` on the relative map -/
def replaceIfExists (m : ObjMap) (parentNs : String) (o : J) : ObjMap :=
  let k := gvkOf o
  let name := relativeName parentNs o
  m.map (fun g => if g.1 == k && (g.2.lookup name).isSome then (g.1, putName name o g.2) else g)

/-- `syncRevisions`: the aggregated hook result, or `none` when… (always some: a sync hook exists) -/
def syncRevisions (c : Cfg) (cache : Cache) (parent : J) (observed related : ObjMap) (newRevName : String) : PE CompResp := do
  if !c.anyRolling || (isDeleting parent && !c.finalizer.shouldFinalize parent) then
    callHookComposite c parent observed related
  else
  let observedRevs ← claimRevisions c cache parent
  let fps := c.effectiveFieldPaths
  let latestPatch ← PE.ofExcept (makePatch parent fps)
  -- materialise each revision's parent
  let (latestRev, others) ← PE.ofExcept (observedRevs.foldlM (fun (acc : Option J × List (J × J × List CGroup)) rev =>
      match rev.get? "parentPatch" with
      | some (.obj pk) =>
          if (J.obj pk).eqv latestPatch then .ok (some rev, acc.2)
          else match applyPatch parent (.obj pk) fps with
            | .ok p => .ok (acc.1, acc.2 ++ [(p, rev, (revChildren rev).getD [])])
            | .error e => .error e
      | _ => .error "can't unmarshal ControllerRevision parentPatch") (none, []))
  let latestRevObj ← match latestRev with
    | some r => pure r
    | none => PE.ofExcept (newControllerRevision c parent latestPatch newRevName)
  let inputs := (parent, latestRevObj, (revChildren latestRevObj).getD []) :: others
  let results ← PE.lift (callHooks c parent observed related inputs)
  let prs ← match results.findSome? (fun r => match r with | .error e => some e | .ok _ => none) with
    | some e => PE.throw e
    | none => pure (results.filterMap (fun r => match r with | .ok p => some p | .error _ => none))
  let (prs, status) ← PE.ofExcept (syncRollingUpdate c prs observed)
  -- prune: the latest always stays
  let pruned := match prs with
    | [] => []
    | l :: rest => l :: rest.filter (fun p => p.count > 0)
  manageRevisions (getNamespace parent) observedRevs (pruned.map (fun p => (p.revision, p.children)))
  -- overlay the desired children of revisions that still hold claims
  let latest := pruned.headD default
  let desired := (pruned.drop 1).foldl (fun (m : ObjMap) p =>
      p.children.foldl (fun m g =>
        g.names.foldl (fun m n =>
          match p.desired.findGK g.apiGroup g.kind n with
          | some child => replaceIfExists m (getNamespace parent) child
          | none => m) m) m) latest.desired
  let resyncs := (pruned.map (·.resp.resyncAfter)).filter (· > 0)
  let resync := resyncs.foldl (fun acc x => if acc == 0 || x < acc then x else acc) 0
  pure { status := some status, children := desired.list.map some, resyncAfter := resync,
         finalized := pruned.all (·.resp.finalized) }

end Mc
