import Mc.Sync.Related
/-
  The complete syncs: finalizer, claim / attachment lookup, related objects, revisions and hooks,
  children, status - `processNextWorkItem` as the work queue and the process-global state see it.
-/
namespace Mc

/-- process-global state a sync reads and leaves behind -/
structure Hidden where
  memo : Memo := []
  customize : CustCache := none
  deriving Inhabited

structure FinalH where
  final : Final
  customize : CustCache
  deriving Inhabited

/-- composite `syncParentObject` -/
def syncParentObjectFull (c : Cfg) (cache : Cache) (parent : J) (newRevName : String) (h : Hidden) : Prog (SyncRes × CustCache) := do
  if c.ignored parent then pure ({ after := [], memo := h.memo, result := .ok () }, h.customize)
  else
  let r ← c.finalizer.syncObject (c.parentTarget parent) parent
  match r with
  | .error e => pure ({ after := [], memo := h.memo, result := .error (.fail s!"can't sync finalizer: {e}") }, h.customize)
  | .ok parent =>
    if c.ignored parent then pure ({ after := [], memo := h.memo, result := .ok () }, h.customize)
    else do
      let observed ← claimChildren c cache parent
      match observed with
      | .error e => pure ({ after := [], memo := h.memo, result := .error e }, h.customize)
      | .ok observed =>
        let rel ← getRelatedObjects c.customize c.parentNamespaced c.related cache parent h.customize
        match rel with
        | .error e => pure ({ after := [], memo := h.memo, result := .error e }, h.customize)
        | .ok (related, cust) =>
          let resp ← syncRevisions c cache parent observed related newRevName
          match resp with
          | .error e => pure ({ after := [], memo := h.memo, result := .error e }, cust)
          | .ok resp =>
            let (memo, t) ← compositeTail c parent observed resp h.memo
            pure ({ after := resyncOps resp, memo, result := t }, cust)

def syncCompositeFull (c : Cfg) (cache : Cache) (ns name newRevName : String) (h : Hidden := {}) : Prog FinalH :=
  match cache.parents.find? (fun p => getNamespace p == ns && getName p == name) with
  | none => pure { final := { outcome := .ok, after := [], memo := h.memo }, customize := h.customize }
  | some parent => do
    let (r, cust) ← syncParentObjectFull c cache parent newRevName h
    pure { final := finalOf r, customize := cust }

/-- decorator `syncParentObject` -/
def syncDecoratorObject (c : DCfg) (cache : Cache) (rule : ParentRes) (parent : J) (h : Hidden) : Prog (SyncRes × CustCache) := do
  if c.ignored parent then pure ({ after := [], memo := h.memo, result := .ok () }, h.customize)
  else
  let t := targetOf rule.group rule.resource rule.namespaced (getNamespace parent) (getName parent)
  let r ← c.finalizer.syncObject t parent
  match r with
  | .error e => pure ({ after := [], memo := h.memo, result := .error (.fail s!"can't sync finalizer: {e}") }, h.customize)
  | .ok parent =>
    if c.ignored parent then pure ({ after := [], memo := h.memo, result := .ok () }, h.customize)
    else do
      let observed := getAttachments c cache parent
      let rel ← getRelatedObjects c.customize rule.namespaced c.related cache parent h.customize
      match rel with
      | .error (.tooMany _) =>
          -- the decorator's `sync` has no 429 handling: a plain error
          pure ({ after := [], memo := h.memo, result := .error (.fail "customize hook failed: too many requests") }, h.customize)
      | .error e => pure ({ after := [], memo := h.memo, result := .error e }, h.customize)
      | .ok (related, cust) =>
        let hk ← callHookDecorator c parent observed related
        match hk with
        | .error e => pure ({ after := [], memo := h.memo, result := .error e }, cust)
        | .ok resp =>
          let (memo, tl) ← decoratorTail c rule parent observed resp h.memo
          pure ({ after := decResyncOps resp, memo, result := tl }, cust)

/-- decorator `sync(key)`; key = apiVersion:kind:namespace:name -/
def syncDecoratorFull (c : DCfg) (cache : Cache) (apiVersion kind ns name : String) (h : Hidden := {}) : Prog FinalH :=
  match c.resources.find? (fun r => r.apiVersion == apiVersion && r.kind == kind) with
  | none => pure { final := { outcome := .error, after := [], memo := h.memo }, customize := h.customize }
  | some rule =>
    match cache.parents.find? (fun p => getAPIVersion p == apiVersion && getKind p == kind && getNamespace p == ns && getName p == name) with
    | none => pure { final := { outcome := .ok, after := [], memo := h.memo }, customize := h.customize }
    | some parent => do
      let (r, cust) ← syncDecoratorObject c cache rule parent h
      pure { final := finalOf r, customize := cust }

end Mc
