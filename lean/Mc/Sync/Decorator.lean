import Mc.Sync.Composite
/-
  Model of pkg/controller/decorator: sync / syncParentObject / getChildren / callHook /
  updateStringMap / decoratorSelector.Matches.
-/
namespace Mc

structure ParentRes where
  apiVersion : String
  resource : String
  kind : String
  namespaced : Bool
  hasStatus : Bool
  /-- `none` = no selector in the rule = `Everything()` -/
  labelSel : Option Selector
  annSel : Option Selector
  ignoreStatusChanges : Bool := false
  deriving Inhabited

def ParentRes.group (p : ParentRes) : String := apiGroup p.apiVersion

structure DCfg where
  name : String
  resources : List ParentRes
  attachments : List ChildRes
  finalize : Bool
  customize : Bool
  related : List ChildRes := []
  deriving Inhabited

def DCfg.finalizer (c : DCfg) : Finalizer :=
  { name := Generated.decoratorFinalizerPrefix ++ c.name, enabled := c.finalize }

/-- the resource rule for an object's group-kind (version ignored); later rules overwrite earlier ones -/
def DCfg.ruleFor (c : DCfg) (o : J) : Option ParentRes :=
  (c.resources.reverse).find? (fun r => r.group == apiGroup (getAPIVersion o) && r.kind == getKind o)

/-- `decoratorSelector.Matches`: both selectors of the rule must match -/
def DCfg.selMatches (c : DCfg) (o : J) : Bool :=
  match c.ruleFor o with
  | none => false
  | some r =>
      (match r.labelSel with | none => true | some s => s.matches (labelsOf o)) &&
      (match r.annSel with | none => true | some s => s.matches (annotationsOf o))

def DCfg.ignored (c : DCfg) (o : J) : Bool := !c.selMatches o && !hasFinalizer o c.finalizer.name

def DCfg.kindTable (c : DCfg) : KindTable :=
  c.attachments.map (fun ch => ((ch.apiVersion, ch.kind), { group := ch.group, resource := ch.resource, namespaced := ch.namespaced }))

/-- `getChildren`: attachments are recognised by controller reference UID **and** the marker annotation -/
def getAttachments (c : DCfg) (cache : Cache) (parent : J) : ObjMap :=
  c.attachments.foldl (fun (m : ObjMap) ch =>
    let all := (cache.children.lookup ch.resource).getD []
    let all := if getNamespace parent != "" then all.filter (fun o => getNamespace o == getNamespace parent) else all
    let (g, v) := parseAPIVersion ch.apiVersion
    let m := m.initGroup { group := g, version := v, kind := ch.kind }
    let mine := all.filter (fun o =>
      (match controllerOf o with | some r => r.uid == getUID parent | none => false) &&
      (annotationsOf o).lookup Generated.decoratorAnnotation == some c.name)
    mine.foldl (fun acc o => acc.insertUniform o) m) []

structure DecResp where
  labels : List (String × Option String)
  annotations : List (String × Option String)
  status : Option KVs
  attachments : List (Option J)
  resyncAfter : Int
  finalized : Bool
  deriving Inhabited

def decodeStrPtrMap : Option J → Except String (List (String × Option String))
  | none | some .null => .ok []
  | some (.obj kvs) => kvs.mapM (fun kv => match kv.2 with
      | .str s => .ok (kv.1, some s)
      | .null => .ok (kv.1, none)
      | _ => .error "cannot unmarshal into *string")
  | some _ => .error "cannot unmarshal into map[string]*string"

def decodeDecResp : J → Except String DecResp
  | .null => .ok { labels := [], annotations := [], status := none, attachments := [], resyncAfter := 0, finalized := false }
  | .obj kvs => do
      let labels ← decodeStrPtrMap (lookup "labels" kvs)
      let annotations ← decodeStrPtrMap (lookup "annotations" kvs)
      let status ← decodeStatus (lookup "status" kvs)
      let attachments ← match lookup "attachments" kvs with
        | none => pure []
        | some .null => pure []
        | some (.arr xs) => xs.mapM decodeChild
        | some _ => .error "cannot unmarshal into []*Unstructured"
      let resync ← decodeSeconds (lookup "resyncAfterSeconds" kvs)
      let fin ← decodeBool (lookup "finalized" kvs)
      pure { labels, annotations, status, attachments, resyncAfter := resync, finalized := fin }
  | _ => .error "cannot unmarshal into DecoratorHookResponse"

/-- `updateStringMap(dest, updates)`: returns the new map and whether anything changed -/
def updateStringMap (dest : KVs) : List (String × Option String) → KVs × Bool
  | [] => (dest, false)
  | (k, none) :: rest =>
      if hasKey k dest then let (d, _) := updateStringMap (eraseKey k dest) rest; (d, true)
      else updateStringMap dest rest
  | (k, some v) :: rest =>
      match lookup k dest with
      | some (.str old) =>
          if old == v then updateStringMap dest rest
          else let (d, _) := updateStringMap (setKey k (.str v) dest) rest; (d, true)
      | _ => let (d, _) := updateStringMap (setKey k (.str v) dest) rest; (d, true)

def callHookDecorator (c : DCfg) (parent : J) (observed related : ObjMap) : PE DecResp := do
  let finalizing := c.finalize && (isDeleting parent || !c.selMatches parent)
  let name := if finalizing then "finalize" else "sync"
  let r ← PE.lift (Prog.request (.hook name (hookRequest "object" "attachments" parent observed related finalizing)))
  match r with
  | .hookOk body =>
    match decodeDecResp body with
    | .error e => PE.fail s!"{name} hook failed: can't unmarshal webhookResponse: {e}"
    | .ok resp =>
      pure { resp with attachments := (resp.attachments.filter Option.isSome).map (fun ch => ch.map (setNamespaceIfEmpty (getNamespace parent))) }
  | .hook429 _ => PE.fail s!"{name} hook failed: too many requests"
  | .hookErr k => PE.fail s!"{name} hook failed: {k}"
  | _ => PE.fail "unexpected response"

/-- marker stamping on a desired attachment -/
def stampMarker (c : DCfg) (o : J) : J :=
  match getAnnotations o with
  | some ann =>
      if lookup Generated.decoratorAnnotation ann == some (.str c.name) then o
      else setStringMapAt o ["metadata", "annotations"] (some (setKey Generated.decoratorAnnotation (.str c.name) ann))
  | none => setStringMapAt o ["metadata", "annotations"] (some [(Generated.decoratorAnnotation, .str c.name)])

/-- how the edit of the target ended: `stop` = a NotFound/Conflict was swallowed, the Go code returns nil
    from the whole sync there, so attachments are not managed afterwards -/
inductive ParentUpd where
  | proceed
  | stop
  deriving Inhabited

def decoratorParentUpdate (c : DCfg) (rule : ParentRes) (parent : J) (resp : DecResp) : PE ParentUpd := do
  let t := targetOf rule.group rule.resource rule.namespaced (getNamespace parent) (getName parent)
  let parentLabels := (getLabels parent).getD []
  let parentAnn := (getAnnotations parent).getD []
  let parentStatus : Except String (Option KVs) := match nestedField parent ["status"] with
    | .ok none => .ok none
    | .ok (some (.obj kvs)) => .ok (some kvs)
    | _ => .error "status is not a map"
  let parentStatus ← PE.ofExcept parentStatus
  let newStatus : Option KVs := match resp.status with | none => parentStatus | some s => some s
  let (labels', lc) := updateStringMap parentLabels resp.labels
  let (ann', ac) := updateStringMap parentAnn resp.annotations
  let statusChanged := match parentStatus, newStatus with
    | none, none => false
    | some a, some b => !((J.obj a).eqv (.obj b))
    | _, _ => true
  if lc || ac || statusChanged || (resp.finalized && hasFinalizer parent c.finalizer.name) then
    let u := setStringMapAt parent ["metadata", "labels"] (some labels')
    let u := setStringMapAt u ["metadata", "annotations"] (some ann')
    let stJ : J := match newStatus with | some s => .obj s | none => .null
    let u ← PE.ofExcept (setNestedField u stJ ["status"])
    let u ←
      if statusChanged && rule.hasStatus then do
        let r ← PE.lift (api .updateStatus t u)
        match r with
        | .obj res =>
            pure (some (match setNestedField u (.str (getResourceVersion res)) ["metadata", "resourceVersion"] with | .ok x => x | .error _ => u))
        | .err "NotFound" | .err "Conflict" => pure none
        | .err e => PE.fail s!"can't update status: {e}"
        | _ => PE.fail "unexpected response"
      else pure (some u)
    match u with
    | none => pure .stop
    | some u =>
      let u := if resp.finalized then
          (if hasFinalizer u c.finalizer.name then setFinalizers u ((getFinalizers u).filter (· != c.finalizer.name)) else u)
        else u
      let r ← PE.lift (api .update t u)
      match r with
      | .obj _ => pure .proceed
      | .err "NotFound" | .err "Conflict" => pure .stop
      | .err e => PE.fail s!"can't update: {e}"
      | _ => PE.fail "unexpected response"
  else pure .proceed

def decoratorTail (c : DCfg) (rule : ParentRes) (parent : J) (observed : ObjMap) (resp : DecResp) (memo : Memo) : Prog (Memo × Except Err Unit) := do
  let upd ← decoratorParentUpdate c rule parent resp
  match upd with
  | .error e => pure (memo, .error e)
  | .ok .stop => pure (memo, .ok ())
  | .ok .proceed =>
    let desiredList := (resp.attachments.filterMap id).map (stampMarker c)
    let desired : ObjMap := desiredList.foldl (fun acc o => acc.insertUniform o) []
    let parentRef := controllerRefTo (getAPIVersion parent) (getKind parent) parent
    -- decorators take their update methods from the attachment rules and always use dynamic apply
    if !isDeleting parent || c.finalizer.shouldFinalize parent then
      let (errs, memo) ← manageChildren Generated.knownMergeKeys Generated.objectMetaSystemFields c.attachments none c.kindTable parentRef observed desired memo
      if errs.isEmpty then pure (memo, .ok ()) else pure (memo, .error (.fail "can't reconcile children"))
    else pure (memo, .ok ())

def decResyncOps (resp : DecResp) : List Int := if resp.resyncAfter > 0 then [clampMs resp.resyncAfter] else []

end Mc
