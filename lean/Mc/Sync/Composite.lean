import Mc.Sync.Common
/-
  Model of pkg/controller/composite: sync / syncParentObject / claimChildren / callHook /
  updateParentStatus (rolling update: Mc/Sync/Rolling.lean).
-/
namespace Mc

def Cfg.finalizer (c : Cfg) : Finalizer :=
  { name := Generated.compositeFinalizerPrefix ++ c.name, enabled := c.finalize }

/-- `pc.doNotMatchLabels(parent.GetLabels())` -/
def Cfg.doNotMatch (c : Cfg) (parent : J) : Bool :=
  match c.parentSelector with
  | none => false
  | some s => !s.matches (labelsOf parent)

def Cfg.ignored (c : Cfg) (parent : J) : Bool :=
  !hasFinalizer parent c.finalizer.name && c.doNotMatch parent

def Cfg.kindTable (c : Cfg) (extra : KindTable := []) : KindTable :=
  c.children.map (fun ch => ((ch.apiVersion, ch.kind), { group := ch.group, resource := ch.resource, namespaced := ch.namespaced })) ++ extra

/-- `makeSelector(parent, extraMatchLabels)` -/
def Cfg.makeSelector (c : Cfg) (parent : J) (extra : List (String × String) := []) : Except String Selector := do
  let base : LabelSelector ←
    if c.generateSelector then pure (LabelSelector.addLabel {} "controller-uid" (getUID parent))
    else
      match nestedField parent ["spec", "selector"] with
      | .error _ => .error "can't get label selector"
      | .ok none => .error ".spec.selector must have either matchLabels, matchExpressions, or both"
      | .ok (some j) =>
        match decodeLabelSelector j with
        | .error _ => .error "can't get label selector"
        | .ok ls =>
          if ls.matchLabels.isEmpty && ls.matchExpressions.isEmpty then
            .error ".spec.selector must have either matchLabels, matchExpressions, or both"
          else pure ls
  let ls := extra.foldl (fun acc kv => acc.addLabel kv.1 kv.2) base
  match asSelector ls with
  | .ok s => pure s
  | .error e => .error s!"can't convert label selector: {e}"

/-- list what the lister returns for one child resource -/
def Cache.childrenOf (cache : Cache) (resource : String) (ns : Option String) : List J :=
  let all := (cache.children.lookup resource).getD []
  match ns with
  | some n => all.filter (fun o => getNamespace o == n)
  | none => all

/-- `claimChildren` -/
def claimChildren (c : Cfg) (cache : Cache) (parent : J) : PE ObjMap := do
  let selector ← PE.ofExcept (c.makeSelector parent)
  let parentRef := controllerRefTo c.parentAPIVersion c.parentKind parent
  c.children.foldlM (fun (m : ObjMap) ch => do
    let all := cache.childrenOf ch.resource (if c.parentNamespaced then some (getNamespace parent) else none)
    let (g, v) := parseAPIVersion ch.apiVersion
    let m := m.initGroup { group := g, version := v, kind := ch.kind }
    let cx : ClaimCtx := { parentT := c.parentTarget parent, parent, parentRef, selector,
                           childT := fun o => targetOf ch.group ch.resource ch.namespaced (getNamespace o) (getName o) }
    let (claimed, errs) ← PE.lift (claimAll cx all none)
    if !errs.isEmpty then PE.fail s!"can't claim {ch.kind} children"
    else pure (claimed.foldl (fun acc o => acc.insertUniform o) m)) []

structure CompResp where
  status : Option KVs
  /-- `none` entries are JSON nulls (nil pointers) -/
  children : List (Option J)
  resyncAfter : Int       -- milliseconds
  finalized : Bool
  deriving Inhabited

/-- decoding of one child (`Unstructured.UnmarshalJSON`): must be an object with a non-empty kind -/
def decodeChild : J → Except String (Option J)
  | .null => .ok none
  | .obj kvs =>
      match lookup "kind" kvs with
      | some (.str k) => if k == "" then .error "Object 'Kind' is missing" else .ok (some (.obj kvs))
      | _ => .error "Object 'Kind' is missing"
  | _ => .error "cannot unmarshal into Unstructured"

/-- seconds → milliseconds, for integral JSON numbers -/
def decodeSeconds : Option J → Except String Int
  | none | some .null => .ok 0
  | some (.num n) => .ok (n * 1000)
  | some _ => .error "cannot unmarshal into float64"

def decodeBool : Option J → Except String Bool
  | none | some .null => .ok false
  | some (.bool b) => .ok b
  | some _ => .error "cannot unmarshal into bool"

def decodeStatus : Option J → Except String (Option KVs)
  | none | some .null => .ok none
  | some (.obj kvs) => .ok (some kvs)
  | some _ => .error "cannot unmarshal into map[string]interface{}"

/-- json decoding into `CompositeHookResponse` (initial value: empty children list) -/
def decodeCompResp : J → Except String CompResp
  | .null => .ok { status := none, children := [], resyncAfter := 0, finalized := false }
  | .obj kvs => do
      let status ← decodeStatus (lookup "status" kvs)
      let children ← match lookup "children" kvs with
        | none => pure []
        | some .null => pure []
        | some (.arr xs) => xs.mapM decodeChild
        | some _ => .error "cannot unmarshal into []*Unstructured"
      let resync ← decodeSeconds (lookup "resyncAfterSeconds" kvs)
      let fin ← decodeBool (lookup "finalized" kvs)
      pure { status, children, resyncAfter := resync, finalized := fin }
  | _ => .error "cannot unmarshal into CompositeHookResponse"

/-- `if child.GetNamespace() == "" { child.SetNamespace(ns) }`; `SetNamespace("")` removes the field -/
def setNamespaceIfEmpty (ns : String) (o : J) : J :=
  if getNamespace o == "" then
    if ns == "" then removeNestedField o ["metadata", "namespace"]
    else match setNestedField o (.str ns) ["metadata", "namespace"] with
      | .ok o' => o'
      | .error _ => o
  else o

def hookRequest (rootField childField : String) (parent : J) (children related : ObjMap) (finalizing : Bool) : J :=
  .obj [(rootField, parent), (childField, (children.convert (getNamespace parent)).toJ),
        ("related", (related.convert (getNamespace parent)).toJ), ("finalizing", .bool finalizing)]

/-- `callHook` of the composite controller (a sync hook is always configured) -/
def callHookComposite (c : Cfg) (parent : J) (observed related : ObjMap) : PE CompResp := do
  let finalizing := c.finalize && (isDeleting parent || c.doNotMatch parent)
  let name := if finalizing then "finalize" else "sync"
  let r ← PE.lift (Prog.request (.hook name (hookRequest "parent" "children" parent observed related finalizing)))
  match r with
  | .hookOk body =>
    match decodeCompResp body with
    | .error e => PE.fail s!"{name} hook failed: can't unmarshal webhookResponse: {e}"
    | .ok resp =>
      -- nil entries are dropped (fix D5), the others get the parent's namespace when they have none
      pure { resp with children := (resp.children.filter Option.isSome).map (fun ch => ch.map (setNamespaceIfEmpty (getNamespace parent))) }
  | .hook429 n => PE.throw (.tooMany n)
  | .hookErr k => PE.fail s!"{name} hook failed: {k}"
  | _ => PE.fail "unexpected response"

/-- `updateParentStatus`: read-modify-write of `.status` -/
def updateParentStatus (c : Cfg) (parent : J) (status : Option KVs) : Prog (Except String J) :=
  let st : J := .obj (setKey "observedGeneration" (.num (getGeneration parent)) (status.getD []))
  atomicLoop (c.parentTarget parent) (getUID parent)
    (fun cur => if ((cur.get? "status").getD .null).eqv st then none else some (.obj (setKey "status" st cur.fields)))
    (if c.parentHasStatus then .updateStatus else .update) "NotFound" retrySteps

/-- label invariant between parent selector and desired children; with selector generation the
    controller-uid label is added first -/
def checkDesiredLabels (c : Cfg) (selector : Selector) (parentUid : String) (o : J) : Except String J :=
  match nestedField o ["metadata", "labels"] with
  | .error _ => .error "invalid labels on desired child"
  | .ok lbl =>
    let strMap : Except String (Option KVs) := match lbl with
      | none => .ok none
      | some (.obj kvs) => if kvs.all (fun kv => kv.2.str?.isSome) then .ok (some kvs) else .error "invalid labels on desired child"
      | some _ => .error "invalid labels on desired child"
    match strMap with
    | .error e => .error e
    | .ok m =>
      let (o', m') :=
        if c.generateSelector && !(hasKey "controller-uid" (m.getD [])) then
          let m2 := setKey "controller-uid" (.str parentUid) (m.getD [])
          (setStringMapAt o ["metadata", "labels"] (some m2), some m2)
        else (o, m)
      let labels := (m'.getD []).filterMap (fun kv => kv.2.str?.map (fun s => (kv.1, s)))
      if selector.matches labels then .ok o' else .error "labels on desired child don't match parent selector"

/-- after the hook answered and the resync was queued: finalizer removal and the label invariant;
    yields the (possibly refreshed) parent and the desired children -/
def compositePrep (c : Cfg) (parent : J) (resp : CompResp) : PE (J × ObjMap) := do
  -- nil entries were dropped by callHook
  let children := resp.children.filterMap id
  let parent ←
    if resp.finalized then do
      let r ← PE.lift (atomicUpdate (c.parentTarget parent) parent (removeFinalizerEdit c.finalizer.name))
      match r with
      | .ok p =>
          -- the refreshed object keeps the generation the hooks were sent (`SetGeneration`; 0 removes the field)
          let g := getGeneration parent
          pure (if g == 0 then removeNestedField p ["metadata", "generation"]
                else match setNestedField p (.num g) ["metadata", "generation"] with | .ok p' => p' | .error _ => p)
      | .error e => PE.fail s!"can't remove finalizer: {e}"
    else pure parent
  let selector ← PE.ofExcept (c.makeSelector parent)
  let children ← PE.ofExcept (children.mapM (checkDesiredLabels c selector (getUID parent)))
  pure (parent, children.foldl (fun acc o => acc.insertUniform o) [])

def Cfg.ssaManager (c : Cfg) : Option String := if c.ssa then some "metacontroller" else none

/-- children, then status: the status write is attempted whatever happened to the children -/
def compositeAct (c : Cfg) (parent : J) (observed desired : ObjMap) (status : Option KVs) (memo : Memo) : Prog (Memo × Except Err Unit) := do
  let parentRef := controllerRefTo (getAPIVersion parent) (getKind parent) parent
  let (manageErrs, memo) ←
    if !isDeleting parent || c.finalizer.shouldFinalize parent then
      manageChildren Generated.knownMergeKeys Generated.objectMetaSystemFields c.children c.ssaManager c.kindTable parentRef observed desired memo
    else pure ([], memo)
  let st ← updateParentStatus c parent status
  match st with
  | .error "NotFound" | .error "Conflict" =>
    -- the status error is swallowed, the children error is not
    if manageErrs.isEmpty then pure (memo, .ok ()) else pure (memo, .error (.fail "can't reconcile children"))
  | .error e => pure (memo, .error (.fail s!"can't update status: {e}"))
  | .ok _ =>
    if manageErrs.isEmpty then pure (memo, .ok ()) else pure (memo, .error (.fail "can't reconcile children"))

def compositeTail (c : Cfg) (parent : J) (observed : ObjMap) (resp : CompResp) (memo : Memo) : Prog (Memo × Except Err Unit) := do
  let p ← compositePrep c parent resp
  match p with
  | .error e => pure (memo, .error e)
  | .ok (parent, desired) => compositeAct c parent observed desired resp.status memo

/-- delayed requeue requested by the hook (milliseconds) -/
def resyncOps (resp : CompResp) : List Int := if resp.resyncAfter > 0 then [clampMs resp.resyncAfter] else []

/-- result of `syncParentObject`: queue operations made on the way, the server-side-apply memo, how it ended -/
structure SyncRes where
  after : List Int
  memo : Memo
  result : Except Err Unit

/-- everything up to and including the hook call -/
def compositeHead (c : Cfg) (cache : Cache) (parent : J) : PE (Option (J × ObjMap × CompResp)) := do
  if c.ignored parent then pure none
  else
  let r ← PE.lift (c.finalizer.syncObject (c.parentTarget parent) parent)
  match r with
  | .error e => PE.fail s!"can't sync finalizer: {e}"
  | .ok parent =>
    if c.ignored parent then pure none
    else do
      let observed ← claimChildren c cache parent
      let resp ← callHookComposite c parent observed []
      pure (some (parent, observed, resp))

/-- `syncParentObject` without rolling strategies and without related objects -/
def syncParentObject (c : Cfg) (cache : Cache) (parent : J) (memo : Memo) : Prog SyncRes := do
  let h ← compositeHead c cache parent
  match h with
  | .error e => pure { after := [], memo, result := .error e }
  | .ok none => pure { after := [], memo, result := .ok () }
  | .ok (some (parent, observed, resp)) =>
    let (memo, t) ← compositeTail c parent observed resp memo
    pure { after := resyncOps resp, memo, result := t }

inductive Outcome where
  | ok
  | error
  | panic
  deriving Repr, BEq, DecidableEq, Inhabited

/-- what the work queue (and the process-global memo) sees of one `processNextWorkItem` -/
structure Final where
  outcome : Outcome
  /-- addAfter delays (ms), in order -/
  after : List Int
  memo : Memo := []
  deriving Inhabited

def finalOf (r : SyncRes) : Final :=
  match r.result with
  | .ok () => { outcome := .ok, after := r.after, memo := r.memo }
  | .error (.tooMany sec) => { outcome := .ok, after := r.after ++ [sec * 1000], memo := r.memo }
  | .error (.fail _) => { outcome := .error, after := r.after, memo := r.memo }
  | .error (.panic _) => { outcome := .panic, after := r.after, memo := r.memo }

/-- `sync(key)` + `processNextWorkItem` -/
def syncComposite (c : Cfg) (cache : Cache) (ns name : String) (memo : Memo := []) : Prog Final :=
  match cache.parents.find? (fun p => getNamespace p == ns && getName p == name) with
  | none => pure { outcome := .ok, after := [], memo }
  | some parent => do
    let r ← syncParentObject c cache parent memo
    pure (finalOf r)

end Mc
