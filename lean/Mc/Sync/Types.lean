import Mc.Prog
import Mc.Apply
import Mc.Selector
import Mc.Generated
/-
  Shared vocabulary of the sync models: configuration, cache snapshot, errors, the `PE` monad
  (program with early exit on error), object maps as the hook sees them.
-/
namespace Mc

structure Check where
  type : String
  status : Option String
  reason : Option String
  deriving Repr, Inhabited

structure ChildRes where
  apiVersion : String
  resource : String
  kind : String
  namespaced : Bool
  hasStatus : Bool
  /-- `none` = no updateStrategy in the spec; `some m` = the method string as configured -/
  method : Option String
  checks : List Check := []
  deriving Repr, Inhabited

def ChildRes.group (c : ChildRes) : String := apiGroup c.apiVersion

structure Cfg where
  name : String
  parentGroup : String
  parentVersion : String
  parentKind : String
  parentResource : String
  parentNamespaced : Bool
  parentHasStatus : Bool
  children : List ChildRes
  generateSelector : Bool
  /-- cc.spec.parentResource.labelSelector, already converted (`none` = select all) -/
  parentSelector : Option Selector
  finalize : Bool
  customize : Bool
  ssa : Bool
  fieldPaths : List String
  /-- resources that customize rules may name -/
  related : List ChildRes := []
  /-- cc.spec.parentResource.ignoreStatusChanges -/
  ignoreStatusChanges : Bool := false
  deriving Inhabited

def Cfg.parentAPIVersion (c : Cfg) : String :=
  if c.parentGroup == "" then c.parentVersion else c.parentGroup ++ "/" ++ c.parentVersion

structure Cache where
  parents : List J
  /-- resource name → objects -/
  children : List (String × List J)
  related : List (String × List J)
  revisions : List J
  deriving Inhabited

inductive Err where
  | fail (msg : String)
  | tooMany (sec : Int)
  | panic (msg : String)
  deriving Repr, Inhabited

/-- program with early exit -/
def PE (α : Type) := Prog (Except Err α)

namespace PE
def pure {α : Type} (a : α) : PE α := Prog.ret (.ok a)
def bind {α β : Type} (p : PE α) (f : α → PE β) : PE β :=
  Prog.bind p (fun r => match r with
    | .ok a => f a
    | .error e => Prog.ret (.error e))
instance : Monad PE where
  pure := PE.pure
  bind := PE.bind
def fail {α : Type} (msg : String) : PE α := Prog.ret (.error (.fail msg))
def throw {α : Type} (e : Err) : PE α := Prog.ret (.error e)
def lift {α : Type} (p : Prog α) : PE α := Prog.bind p (fun a => Prog.ret (.ok a))
def ofExcept {α : Type} (e : Except String α) : PE α :=
  match e with
  | .ok a => PE.pure a
  | .error m => PE.fail m
/-- run `p`, hand its outcome (success or error) to the continuation: never exits early -/
def attempt {α β : Type} (p : PE α) (k : Except Err α → PE β) : PE β := Prog.bind p k
end PE

def api (v : Verb) (t : Target) (body : J := .null) (opts : J := .null) : Prog Resp :=
  Prog.request (.api v t body opts)

/-- (group, version, kind) of an object, from its own apiVersion / kind -/
structure GVK where
  group : String
  version : String
  kind : String
  deriving Repr, BEq, DecidableEq, Inhabited

def gvkOf (o : J) : GVK :=
  let (g, v) := parseAPIVersion (getAPIVersion o)
  { group := g, version := v, kind := getKind o }

/-- `api.GroupVersionKind.MarshalText` -/
def GVK.text (k : GVK) : String :=
  if k.group == "" then k.kind ++ "." ++ k.version else k.kind ++ "." ++ k.group ++ "/" ++ k.version

/-- `UniformObjectMap` / `RelativeObjectMap`: group → (name → object), insertion semantics of Go maps -/
abbrev ObjMap := List (GVK × List (String × J))

def ObjMap.initGroup (m : ObjMap) (k : GVK) : ObjMap :=
  if m.any (·.1 == k) then m else m ++ [(k, [])]

def putName (name : String) (o : J) : List (String × J) → List (String × J)
  | [] => [(name, o)]
  | (n, x) :: rest => if n == name then (n, o) :: rest else (n, x) :: putName name o rest

def ObjMap.put (m : ObjMap) (k : GVK) (name : String) (o : J) : ObjMap :=
  let m := m.initGroup k
  m.map (fun g => if g.1 == k then (g.1, putName name o g.2) else g)

def ObjMap.group (m : ObjMap) (k : GVK) : List (String × J) :=
  match m.find? (·.1 == k) with
  | some g => g.2
  | none => []

/-- `UniformObjectMap.qualifiedName` -/
def qualifiedName (o : J) : String :=
  if getNamespace o != "" then getNamespace o ++ "/" ++ getName o else getName o

/-- `relativeName(parent, obj)` -/
def relativeName (parentNs : String) (o : J) : String :=
  if parentNs == "" && getNamespace o != "" then getNamespace o ++ "/" ++ getName o else getName o

def ObjMap.insertUniform (m : ObjMap) (o : J) : ObjMap := m.put (gvkOf o) (qualifiedName o) o
def ObjMap.insertRelative (m : ObjMap) (parentNs : String) (o : J) : ObjMap := m.put (gvkOf o) (relativeName parentNs o) o

def ObjMap.list (m : ObjMap) : List J := m.flatMap (fun g => g.2.map (·.2))

/-- `UniformObjectMap.Convert(parent)` -/
def ObjMap.convert (m : ObjMap) (parentNs : String) : ObjMap :=
  let init : ObjMap := m.foldl (fun acc g => acc.initGroup g.1) []
  let objs := if parentNs == "" then m.list else m.list.filter (fun o => getNamespace o == parentNs)
  objs.foldl (fun acc o => acc.insertRelative parentNs o) init

/-- JSON form of an object map in a hook request -/
def ObjMap.toJ (m : ObjMap) : J :=
  .obj (m.map (fun g => (g.1.text, J.obj (g.2.map (fun no => (no.1, no.2))))))

/-- `FindGroupKindName` (version ignored) -/
def ObjMap.findGK (m : ObjMap) (group kind name : String) : Option J :=
  (m.filter (fun g => g.1.group == group && g.1.kind == kind)).findSome? (fun g => g.2.lookup name)

end Mc
