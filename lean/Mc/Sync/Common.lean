import Mc.Sync.Types
/-
  Pieces shared by the composite and the decorator sync: read-modify-write helpers
  (pkg/dynamic/clientset), finalizer manager, ClaimObject (third_party/kubernetes),
  owner-reference edits (pkg/dynamic/controllerref), ManageChildren (pkg/controller/common).
-/
namespace Mc

/-- `ResourceClient.Namespace(ns)`: cluster-scoped resources ignore the namespace -/
def targetOf (group resource : String) (namespaced : Bool) (ns name : String) : Target :=
  { group, resource, ns := if namespaced then ns else "", name }

def Cfg.parentTarget (c : Cfg) (parent : J) : Target :=
  targetOf c.parentGroup c.parentResource c.parentNamespaced (getNamespace parent) (getName parent)

/-- `time.Duration(seconds * float64(time.Second))` read back in milliseconds: a product beyond the int64 range
    converts to the minimum int64 (amd64), i.e. a negative delay -/
def clampMs (ms : Int) : Int :=
  if ms * 1000000 ≥ 9223372036854775808 then -9223372036854 else ms

def retrySteps : Nat := 4   -- retry.DefaultBackoff.Steps

/-- `AtomicUpdate` / `AtomicStatusUpdate` / `UpdateWithRetries`: GET, check UID, edit, PUT; retried on
    Conflict. `f cur = none` means "nothing to do". `goneReason` is what a UID mismatch is reported as. -/
def atomicLoop (t : Target) (origUid : String) (f : J → Option J) (putVerb : Verb) (goneReason : String) :
    Nat → Prog (Except String J)
  | 0 => .ret (.error "Conflict")
  | n + 1 => do
    let r ← api .get t
    match r with
    | .obj cur =>
      if getUID cur != origUid then pure (.error goneReason)
      else match f cur with
        | none => pure (.ok cur)
        | some upd => do
          let r2 ← api putVerb t upd
          match r2 with
          | .obj res => pure (.ok res)
          | .err "Conflict" => if n == 0 then pure (.error "Conflict") else atomicLoop t origUid f putVerb goneReason n
          | .err e => pure (.error e)
          | _ => pure (.error "unexpected response")
    | .err e => pure (.error e)
    | _ => pure (.error "unexpected response")

def atomicUpdate (t : Target) (orig : J) (f : J → Option J) : Prog (Except String J) :=
  atomicLoop t (getUID orig) f .update "NotFound" retrySteps

/-- `controllerutil.AddFinalizer` / `RemoveFinalizer` on an unstructured object -/
def setFinalizers (o : J) (fs : List String) : J :=
  -- both edits hand a non-nil slice to SetFinalizers, so the field is always written (possibly `[]`)
  match setNestedField o (.arr (fs.map .str)) ["metadata", "finalizers"] with
  | .ok o' => o'
  | .error _ => o

def addFinalizerEdit (name : String) (cur : J) : Option J :=
  if hasFinalizer cur name then none else some (setFinalizers cur (getFinalizers cur ++ [name]))

def removeFinalizerEdit (name : String) (cur : J) : Option J :=
  if !hasFinalizer cur name then none else some (setFinalizers cur ((getFinalizers cur).filter (· != name)))

structure Finalizer where
  name : String
  enabled : Bool
  deriving Repr, Inhabited

/-- `finalizer.Manager.SyncObject` -/
def Finalizer.syncObject (fz : Finalizer) (t : Target) (obj : J) : Prog (Except String J) :=
  if hasFinalizer obj fz.name == fz.enabled then pure (.ok obj)
  else if fz.enabled then
    if isDeleting obj then pure (.ok obj)
    else atomicUpdate t obj (addFinalizerEdit fz.name)
  else atomicUpdate t obj (removeFinalizerEdit fz.name)

def gcFinalizers : List String := ["foregroundDeletion", "orphan"]

/-- `finalizer.Manager.ShouldFinalize` -/
def Finalizer.shouldFinalize (fz : Finalizer) (parent : J) : Bool :=
  if (getFinalizers parent).any (fun f => gcFinalizers.contains f) then false
  else if !hasFinalizer parent fz.name then false
  else fz.enabled

/-- `addOwnerReference` -/
def addOwnerReference (refs : List OwnerRef) (add : OwnerRef) : List OwnerRef :=
  if refs.any (·.uid == add.uid) then refs.map (fun r => if r.uid == add.uid then add else r)
  else refs ++ [add]

/-- `removeOwnerReference` -/
def removeOwnerReference (refs : List OwnerRef) (uid : String) : List OwnerRef :=
  refs.filter (·.uid != uid)

def controllerRefTo (apiVersion kind : String) (parent : J) : OwnerRef :=
  { apiVersion, kind, name := getName parent, uid := getUID parent, controller := some true, blockOwnerDeletion := some true }

inductive ClaimAct where
  | ignore | keep | release | adopt
  deriving Repr, BEq, DecidableEq, Inhabited

/-- decision table of `BaseControllerRefManager.ClaimObject` -/
def claimDecision (parentUid : String) (parentDeleting : Bool) (matches_ : Bool) (obj : J) : ClaimAct :=
  match controllerOf obj with
  | some ref =>
      if ref.uid != parentUid then .ignore
      else if matches_ then .keep
      else if parentDeleting then .ignore
      else .release
  | none =>
      if parentDeleting || !matches_ then .ignore
      else if isDeleting obj then .ignore
      else .adopt

/-- state of `canAdoptOnce` within one manager -/
abbrev AdoptState := Option (Except String Unit)

/-- `CanAdopt()`: one live GET of the parent per manager -/
def canAdopt (parentT : Target) (parent : J) (st : AdoptState) : Prog (Except String Unit × AdoptState) :=
  match st with
  | some r => pure (r, st)
  | none => do
    let r ← api .get parentT
    let res : Except String Unit := match r with
      | .obj fresh =>
          if getUID fresh != getUID parent then .error "can't recheck DeletionTimestamp: original parent is gone"
          else if isDeleting fresh then .error "parent has just been deleted"
          else .ok ()
      | .err e => .error s!"can't recheck DeletionTimestamp: {e}"
      | _ => .error "unexpected response"
    pure (res, some res)

structure ClaimCtx where
  parentT : Target
  parent : J
  parentRef : OwnerRef
  selector : Selector
  /-- target of a child object -/
  childT : J → Target
  /-- gone-reason used by the read-modify-write of this kind of child -/
  goneReason : String := "NotFound"
  /-- typed objects drop an empty ownerReferences list when marshalled (`omitempty`) -/
  typed : Bool := false
  /-- the typed client refuses every named request with an empty namespace, before sending anything -/
  clientRefuses : Bool := false

def ClaimCtx.setRefs (cx : ClaimCtx) (o : J) (refs : List OwnerRef) : J :=
  if cx.typed && refs.isEmpty then removeNestedField o ["metadata", "ownerReferences"] else setOwnerRefs o refs

/-- claim one object: returns (claimed?, error?) -/
def claimOne (cx : ClaimCtx) (obj : J) (st : AdoptState) : Prog ((Bool × Option String) × AdoptState) :=
  match claimDecision (getUID cx.parent) (isDeleting cx.parent) (cx.selector.matches (labelsOf obj)) obj with
  | .ignore => pure ((false, none), st)
  | .keep => pure ((true, none), st)
  | .release => do
      let r ← if cx.clientRefuses then pure (.error "an empty namespace may not be set when a resource name is provided") else
              atomicLoop (cx.childT obj) (getUID obj)
                (fun cur => some (cx.setRefs cur (removeOwnerReference (getOwnerRefs cur) (getUID cx.parent))))
                .update cx.goneReason retrySteps
      match r with
      | .ok _ => pure ((false, none), st)
      | .error "NotFound" | .error "Gone" => pure ((false, none), st)
      | .error e => pure ((false, some e), st)
  | .adopt => do
      let (ok, st') ← canAdopt cx.parentT cx.parent st
      match ok with
      | .error e => pure ((false, some s!"can't adopt: {e}"), st')
      | .ok () =>
        let r ← if cx.clientRefuses then pure (.error "an empty namespace may not be set when a resource name is provided") else
                atomicLoop (cx.childT obj) (getUID obj)
                  (fun cur => some (cx.setRefs cur (addOwnerReference (getOwnerRefs cur) cx.parentRef)))
                  .update cx.goneReason retrySteps
        match r with
        | .ok _ => pure ((true, none), st')
        | .error "NotFound" => pure ((false, none), st')
        | .error e => pure ((false, some e), st')

/-- `ClaimChildren` of one manager: every object is processed; errors are aggregated -/
def claimAll (cx : ClaimCtx) : List J → AdoptState → Prog (List J × List String)
  | [], _ => pure ([], [])
  | o :: rest, st => do
      let ((ok, err), st') ← claimOne cx o st
      let (claimed, errs) ← claimAll cx rest st'
      pure ((if ok then o :: claimed else claimed), (match err with | some e => e :: errs | none => errs))

/-- `ChildUpdateStrategy.GetMethod` over the configured child resources
    (`makeUpdateStrategyMap` stores nothing for OnDelete; an empty method reads as OnDelete) -/
def getMethod (children : List ChildRes) (group kind : String) : String :=
  match children.find? (fun c => c.group == group && c.kind == kind) with
  | some c => match c.method with
      | none | some "" | some "OnDelete" => "OnDelete"
      | some m => m
  | none => "OnDelete"

/-- what `updateChildren` does to an observed child under dynamic apply -/
inductive ChildAct where
  | none
  | update (body : J)
  | delete (uid : String)
  | error (msg : String)
  deriving Inhabited

def updateAct (mks sys : List String) (method : String) (obs des : J) : ChildAct :=
  match applyUpdate mks sys obs des with
  | .error e => .error e
  | .ok new =>
    if new.eqv obs then .none
    else if isDeleting obs then .none
    else match method with
      | "OnDelete" | "" => .none
      | "Recreate" | "RollingRecreate" => .delete (getUID obs)
      | "InPlace" | "RollingInPlace" => .update new
      | m => .error s!"invalid update strategy: unknown method {m}"

def deleteOpts (uid : String) : J :=
  .obj [("preconditions", .obj [("uid", .str uid)]), ("propagationPolicy", .str "Background")]

/-- resource lookup by kind (`dynClient.Kind(apiVersion, kind)`) -/
structure KindInfo where
  group : String
  resource : String
  namespaced : Bool
  deriving Repr, Inhabited

abbrev KindTable := List ((String × String) × KindInfo)   -- (apiVersion, kind) ↦ info

def KindTable.find (kt : KindTable) (apiVersion kind : String) : Option KindInfo :=
  (kt.find? (fun e => e.1.1 == apiVersion && e.1.2 == kind)).map (·.2)

def gvkAPIVersion (k : GVK) : String := if k.group == "" then k.version else k.group ++ "/" ++ k.version

/-- the server-side-apply memo (`lastUpdatedCache`, process-global): key ↦ (desired object as hashed, generation).
    The 64-bit hash of the marshalled desired object is modelled by the object itself. -/
abbrev Memo := List (String × (J × Int))

def memoKey (info : KindInfo) (kind : String) (o : J) : String :=
  info.group ++ "/" ++ kind ++ "/" ++ getNamespace o ++ "/" ++ getName o

def Memo.erase (m : Memo) (k : String) : Memo := m.filter (·.1 != k)
def Memo.set (m : Memo) (k : String) (v : J × Int) : Memo := m.erase k ++ [(k, v)]

/-- `deleteChildren` for one group -/
def deleteGroup (info : KindInfo) (kind : String) (desiredNames : List String) : List (String × J) → Memo → Prog (List String × Memo)
  | [], memo => pure ([], memo)
  | (name, obj) :: rest, memo => do
      let (errs, memo) ← deleteGroup info kind desiredNames rest memo
      if isDeleting obj then pure (errs, memo)
      else if desiredNames.contains name then pure (errs, memo)
      else
        let r ← api .delete (targetOf info.group info.resource info.namespaced (getNamespace obj) (getName obj)) .null (deleteOpts (getUID obj))
        match r with
        | .err "NotFound" => pure (errs, memo)
        | .err e => pure (s!"can't delete: {e}" :: errs, memo)
        | _ => pure (errs, memo.erase (memoKey info kind obj))

/-- the object sent by a create: last-applied recorded first, then the controller reference appended -/
def createBody (parentRef : OwnerRef) (des : J) : J :=
  let o := setLastApplied des des
  setOwnerRefs o (getOwnerRefs o ++ [parentRef])

def applyOpts (fieldManager : String) : J := .obj [("fieldManager", .str fieldManager), ("force", .str "true")]

/-- what is sent by server-side apply: the hook's object with the controller reference to the parent -/
def applyBody (parentRef : OwnerRef) (des : J) : J :=
  if (getOwnerRefs des).any (·.uid == parentRef.uid) then des else setOwnerRefs des (getOwnerRefs des ++ [parentRef])

/-- one desired child under server-side apply -/
def ssaOne (fieldManager : String) (info : KindInfo) (kind : String) (parentRef : OwnerRef) (obs : Option J) (des : J)
    (memo : Memo) : Prog (Option String × Memo) := do
  let t := targetOf info.group info.resource info.namespaced (getNamespace des) (getName des)
  let body := applyBody parentRef des
  let key := memoKey info kind des
  let skip := match obs, memo.lookup key with
    | some o, some (h, g) => h.eqv body && g == getGeneration o
    | _, _ => false
  if skip then pure (none, memo)
  else
    let pre : Prog (Option String) := match obs with
      | some o =>
          if hasKey lastAppliedAnnotation ((getAnnotations o).getD []) then do
            let r ← api .patchRemove t
            match r with
            | .err e => pure (some e)
            | _ => pure none
          else pure none
      | none => pure none
    let e ← pre
    match e with
    | some e => pure (some e, memo)
    | none =>
      -- the dynamic client refuses a patch without a name before sending anything
      if getName des == "" then pure (some "name is required", memo) else
      let r ← api .apply t body (applyOpts fieldManager)
      match r with
      | .err e => pure (some e, memo)
      | .obj patched => pure (none, memo.set key (body, getGeneration patched))
      | _ => pure (some "unexpected response", memo)

/-- `updateChildren` for one group; `ssa = some fieldManager` selects server-side apply -/
def updateGroup (mks sys : List String) (children : List ChildRes) (ssa : Option String) (info : KindInfo) (kind : String) (parentRef : OwnerRef)
    (observed : List (String × J)) : List (String × J) → Memo → Prog (List String × Memo)
  | [], memo => pure ([], memo)
  | (name, des) :: rest, memo => do
      let (errs, memo) ← updateGroup mks sys children ssa info kind parentRef observed rest memo
      let t := targetOf info.group info.resource info.namespaced (getNamespace des) (getName des)
      match ssa with
      | some fm =>
          let (e, memo) ← ssaOne fm info kind parentRef (observed.lookup name) des memo
          pure ((match e with | some e => e :: errs | none => errs), memo)
      | none =>
      match observed.lookup name with
      | some obs =>
        match updateAct mks sys (getMethod children info.group kind) obs des with
        | .none => pure (errs, memo)
        | .error e => pure (e :: errs, memo)
        | .delete uid => do
            let r ← api .delete t .null (deleteOpts uid)
            match r with
            | .err "NotFound" => pure (errs, memo)
            | .err e => pure (e :: errs, memo)
            | _ => pure (errs, memo)
        | .update body => do
            let r ← api .update t body
            match r with
            | .err "NotFound" | .err "Conflict" => pure (errs, memo)
            | .err e => pure (e :: errs, memo)
            | _ => pure (errs, memo)
      | none => do
          let r ← api .create t (createBody parentRef des)
          match r with
          | .err "AlreadyExists" => pure (errs, memo)
          | .err e => pure (e :: errs, memo)
          | _ => pure (errs, memo)

/-- `ManageChildren`: delete loop over observed groups, then create/update loop over desired groups;
    every failure is collected, nothing stops the loops -/
def manageChildren (mks sys : List String) (children : List ChildRes) (ssa : Option String) (kt : KindTable) (parentRef : OwnerRef)
    (observed desired : ObjMap) (memo : Memo) : Prog (List String × Memo) := do
  let (e1, memo) ← observed.foldlM (fun (acc : List String × Memo) g => do
      match kt.find (gvkAPIVersion g.1) g.1.kind with
      | none => pure (acc.1 ++ ["discovery: can't find kind"], acc.2)
      | some info =>
        let (errs, memo) ← deleteGroup info g.1.kind ((desired.group g.1).map (·.1)) g.2 acc.2
        pure (acc.1 ++ errs, memo)) ([], memo)
  let (e2, memo) ← desired.foldlM (fun (acc : List String × Memo) g => do
      match kt.find (gvkAPIVersion g.1) g.1.kind with
      | none => pure (acc.1 ++ ["discovery: can't find kind"], acc.2)
      | some info =>
        let (errs, memo) ← updateGroup mks sys children ssa info g.1.kind parentRef (observed.group g.1) g.2 acc.2
        pure (acc.1 ++ errs, memo)) ([], memo)
  pure (e1 ++ e2, memo)

end Mc
