import Mc.Sync.Rolling
import Mc.Sync.Decorator
/-
  Model of pkg/controller/common/customize/manager.go: getCustomizeHookResponse (cache by UID and
  generation), determineSelectionType, GetRelatedObjects, matchesRelatedRule.
-/
namespace Mc

structure RelRule where
  apiVersion : String
  resource : String
  /-- `none` = no labelSelector field (nil pointer) -/
  labelSelector : Option LabelSelector
  ns : String
  names : List String
  deriving Inhabited

def decodeRelRule : J → Except String (Option RelRule)
  | .null => .ok none
  | .obj kvs => do
      let s (k : String) : Except String String := match lookup k kvs with
        | some (.str x) => .ok x | none | some .null => .ok "" | _ => .error s!"cannot unmarshal {k} into string"
      let av ← s "apiVersion"; let res ← s "resource"; let ns ← s "namespace"
      let names ← strListOf ((lookup "names" kvs).getD .null)
      let ls ← match lookup "labelSelector" kvs with
        | none | some .null => pure none
        | some j => (decodeLabelSelector j).map some
      pure (some { apiVersion := av, resource := res, labelSelector := ls, ns := ns, names := names })
  | _ => .error "cannot unmarshal into RelatedResourceRule"

/-- decode `CustomizeHookResponse`; `none` entries are JSON nulls -/
def decodeCustomizeResp : J → Except String (List (Option RelRule))
  | .null => .ok []
  | .obj kvs => match lookup "relatedResources" kvs with
      | none | some .null => .ok []
      | some (.arr xs) => xs.mapM decodeRelRule
      | some _ => .error "cannot unmarshal into []*RelatedResourceRule"
  | _ => .error "cannot unmarshal into CustomizeHookResponse"

inductive SelKind where
  | byLabels | byNames | invalid
  deriving Repr, BEq, DecidableEq

/-- `determineSelectionType` -/
def selectionType (r : RelRule) : SelKind :=
  let hasNs := r.ns != "" || !r.names.isEmpty
  if r.labelSelector.isSome && hasNs then .invalid
  else if hasNs then .byNames else .byLabels

/-- `toSelector` -/
def relSelector (r : RelRule) : Except String Selector :=
  match r.labelSelector with
  | none => .ok (.reqs [])
  | some ls => asSelector ls

/-- the customize-response cache, as far as one sync can see it: the entry for this parent's
    (UID, generation), if present and not expired -/
abbrev CustCache := Option J

/-- `getCustomizeHookResponse` -/
def customizeResponse (parent : J) (cached : CustCache) : PE (J × CustCache) :=
  match cached with
  | some b => pure (b, cached)
  | none => do
    let r ← PE.lift (Prog.request (.hook "customize" (.obj [("parent", parent)])))
    match r with
    | .hookOk body => pure (body, some body)
    | .hook429 n => PE.throw (.tooMany n)     -- a TooManyRequestError travels up to `sync`
    | .hookErr k => PE.fail s!"customize hook failed: {k}"
    | _ => PE.fail "unexpected response"

/-- `GetRelatedObjects(parent)`: `relRes` describes the resources a rule may name -/
def getRelatedObjects (enabled : Bool) (parentNamespaced : Bool) (relRes : List ChildRes) (cache : Cache) (parent : J)
    (cached : CustCache) : PE (ObjMap × CustCache) := do
  if !enabled then pure ([], cached)
  else
  let (body, cached') ← customizeResponse parent cached
  let rules ← PE.ofExcept (decodeCustomizeResp body)
  let pns := getNamespace parent
  let m ← rules.foldlM (fun (m : ObjMap) orule => do
    match orule with
    | none => pure m          -- nil rules are skipped (fix D15)
    | some rule =>
      match relRes.find? (fun r => r.apiVersion == rule.apiVersion && r.resource == rule.resource) with
      | none => PE.fail "discovery: can't find resource"
      | some res =>
        let (g, v) := parseAPIVersion res.apiVersion
        let gvk : GVK := { group := g, version := v, kind := res.kind }
        let pool := (cache.related.lookup res.resource).getD []
        match selectionType rule with
        | .invalid => PE.fail "related rule cannot have both labelSelector and Namespace/Names specified"
        | .byLabels =>
            match relSelector rule with
            | .error e => PE.fail e
            | .ok sel =>
              let all := (if parentNamespaced then pool.filter (fun o => getNamespace o == pns) else pool).filter (fun o => sel.matches (labelsOf o))
              pure (all.foldl (fun acc o => acc.insertUniform o) (m.initGroup gvk))
        | .byNames =>
            if parentNamespaced && rule.ns != "" && pns != rule.ns then
              PE.fail "requested related object namespace differs from parent object namespace"
            else
              let all := if rule.ns != "" then pool.filter (fun o => getNamespace o == rule.ns) else pool
              let all := if rule.names.isEmpty then all else all.filter (fun o => rule.names.contains (getName o))
              pure (all.foldl (fun acc o => acc.insertUniform o) (m.initGroup gvk))) []
  pure (m, cached')

/-- `matchesRelatedRule(parentIsNamespaced, parent, related, rule, ruleKind)` -/
def matchesRelatedRule (parentNamespaced : Bool) (parent related : J) (rule : RelRule) (ruleKind : String) : Except String Bool :=
  if !(getAPIVersion related == rule.apiVersion && getKind related == ruleKind) then .ok false
  else match selectionType rule with
    | .byLabels => (relSelector rule).map (fun sel => sel.matches (labelsOf related))
    | .byNames =>
        if parentNamespaced then
          if rule.ns != "" && getNamespace parent != rule.ns then .error "namespace of parent does not match namespace of related rule"
          else if getNamespace parent != getNamespace related then .ok false
          else .ok (rule.names.isEmpty || rule.names.contains (getName related))
        else if rule.ns != "" && getNamespace related != rule.ns then .ok false
        else .ok (rule.names.isEmpty || rule.names.contains (getName related))
    | .invalid => .error "related rule cannot have both labelSelector and Namespace/Names specified"

end Mc
