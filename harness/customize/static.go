package customize

// Verification helper (injected with go -overlay; not part of /repo).

import (
	"encoding/json"

	"k8s.io/apimachinery/pkg/runtime/schema"
	"k8s.io/apimachinery/pkg/types"

	dynamicinformer "metacontroller/pkg/dynamic/informer"
)

// VerifSetRelatedInformer pre-registers an informer for a related resource, so that
// GetRelatedObjects reads it instead of starting a real one.
func (rm *Manager) VerifSetRelatedInformer(gvr schema.GroupVersionResource, informer *dynamicinformer.ResourceInformer) {
	rm.relatedInformers.Set(gvr, informer)
}

// VerifCachedResponse returns the cached customize answer for parent's (UID, generation), as JSON.
func (rm *Manager) VerifCachedResponse(uid types.UID, generation int64) (interface{}, bool) {
	resp, ok := rm.customizeCache.Get(customizeKey{uid, generation})
	if !ok {
		return nil, false
	}
	b, err := json.Marshal(resp)
	if err != nil {
		return nil, false
	}
	var v interface{}
	_ = json.Unmarshal(b, &v)
	return v, true
}

// VerifOnRelated delivers a related-object event to the manager's own handlers.
func (rm *Manager) VerifOnRelated(typ string, old, obj interface{}) {
	switch typ {
	case "add":
		rm.onRelatedAdd(obj)
	case "update":
		rm.onRelatedUpdate(old, obj)
	case "delete":
		rm.onRelatedDelete(obj)
	}
}
