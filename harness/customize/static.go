package customize

// Verification helper (injected with go -overlay; not part of /repo).

import (
	"k8s.io/apimachinery/pkg/runtime/schema"

	dynamicinformer "metacontroller/pkg/dynamic/informer"
)

// VerifSetRelatedInformer pre-registers an informer for a related resource, so that
// GetRelatedObjects reads it instead of starting a real one.
func (rm *Manager) VerifSetRelatedInformer(gvr schema.GroupVersionResource, informer *dynamicinformer.ResourceInformer) {
	rm.relatedInformers.Set(gvr, informer)
}
