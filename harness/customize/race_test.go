package customize

// Concurrent first syncs of distinct parents that resolve the same related resource: the manager's shared
// relatedInformers map must be accessed under a lock. Run under the race detector (failing-input search for C17).

import (
	"encoding/json"
	"fmt"
	"net/http"
	"net/http/httptest"
	"sync"
	"testing"
	"time"

	"github.com/go-logr/logr"
	metav1 "k8s.io/apimachinery/pkg/apis/meta/v1"
	"k8s.io/apimachinery/pkg/apis/meta/v1/unstructured"
	"k8s.io/apimachinery/pkg/runtime/schema"
	"k8s.io/client-go/rest"

	"metacontroller/pkg/apis/metacontroller/v1alpha1"
	"metacontroller/pkg/controller/common"
	dynamicclientset "metacontroller/pkg/dynamic/clientset"
	dynamicdiscovery "metacontroller/pkg/dynamic/discovery"
	dynamicinformer "metacontroller/pkg/dynamic/informer"
	vs "metacontroller/pkg/internal/verifsim"
)

func TestVerifRelatedRace(t *testing.T) {
	defs := []vs.ResourceDef{
		{Group: "ctl.example.com", Version: "v1", Resource: "things", Kind: "Thing", Namespaced: true, HasStatus: true},
		{Group: "", Version: "v1", Resource: "secrets", Kind: "Secret", Namespaced: true},
		{Group: "", Version: "v1", Resource: "configmaps", Kind: "ConfigMap", Namespaced: true},
	}
	seed, n := vs.Params(8)
	out := vs.OpenOut()
	defer out.Close()
	for round := 0; round < n; round++ {
		if !vs.Mine(round) {
			continue
		}
		sim := vs.NewSim(defs)
		sim.Quiet = true
		hook := httptest.NewServer(http.HandlerFunc(func(w http.ResponseWriter, r *http.Request) {
			b, _ := json.Marshal(map[string]interface{}{"relatedResources": []interface{}{
				map[string]interface{}{"apiVersion": "v1", "resource": "secrets"},
				map[string]interface{}{"apiVersion": "v1", "resource": "configmaps"}}})
			w.Write(b)
		}))
		lists := []*metav1.APIResourceList{
			{GroupVersion: "ctl.example.com/v1", APIResources: []metav1.APIResource{{Name: "things", Kind: "Thing", Namespaced: true, Group: "ctl.example.com", Version: "v1"}}},
			{GroupVersion: "v1", APIResources: []metav1.APIResource{{Name: "secrets", Kind: "Secret", Namespaced: true, Version: "v1"}, {Name: "configmaps", Kind: "ConfigMap", Namespaced: true, Version: "v1"}}},
		}
		resources := dynamicdiscovery.NewStaticResourceMap(lists)
		dyn, err := dynamicclientset.New(&rest.Config{Host: sim.URL()}, resources)
		if err != nil {
			t.Fatal(err)
		}
		factory := dynamicinformer.NewSharedInformerFactory(dyn, 10*time.Minute)
		url := hook.URL + "/customize"
		cc := &v1alpha1.CompositeController{ObjectMeta: metav1.ObjectMeta{Name: "cc"}}
		cc.Spec.ParentResource.APIVersion, cc.Spec.ParentResource.Resource = "ctl.example.com/v1", "things"
		cc.Spec.Hooks = &v1alpha1.CompositeControllerHooks{Customize: &v1alpha1.Hook{Webhook: &v1alpha1.Webhook{URL: &url}}}
		parentClient, _ := dyn.Resource("ctl.example.com/v1", "things")
		kinds := make(common.GroupKindMap)
		kinds.Set(schema.GroupKind{Group: "ctl.example.com", Kind: "Thing"}, parentClient.APIResource)
		rm, err := NewCustomizeManager("cc", func(interface{}) {}, cc, dyn, factory, make(common.InformerMap), kinds, logr.Discard(), common.CompositeController)
		if err != nil {
			t.Fatal(err)
		}
		stop := make(chan struct{})
		rm.Start(stop)
		var wg sync.WaitGroup
		for w := 0; w < 4; w++ {
			wg.Add(1)
			go func(w int) {
				defer wg.Done()
				p := &unstructured.Unstructured{Object: map[string]interface{}{"apiVersion": "ctl.example.com/v1", "kind": "Thing",
					"metadata": map[string]interface{}{"name": fmt.Sprintf("p%d", w), "namespace": "ns1", "uid": fmt.Sprintf("uid-%d", w), "generation": int64(1)}}}
				if _, err := rm.GetRelatedObjects(p); err != nil {
					t.Errorf("worker %d: %v", w, err)
				}
			}(w)
		}
		wg.Wait()
		rm.Stop()
		close(stop)
		// every subscription the manager made is released again
		rc, _ := factory.VerifCounts()
		if len(rc) != 0 {
			t.Errorf("subscriptions left after Stop: %v", rc)
		}
		out.Line(vs.M{"kind": "race", "case": round, "seed": seed, "workers": 4, "leaked": len(rc)})
		hook.Close()
		sim.Server.CloseClientConnections()
		sim.Close()
	}
}
