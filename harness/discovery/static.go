package discovery

// Verification helper (injected with go -overlay; not part of /repo).

import (
	metav1 "k8s.io/apimachinery/pkg/apis/meta/v1"
	fakediscovery "k8s.io/client-go/discovery/fake"
	clienttesting "k8s.io/client-go/testing"
)

// NewStaticResourceMap builds a ResourceMap from fixed discovery data (one refresh, no goroutine).
func NewStaticResourceMap(lists []*metav1.APIResourceList) *ResourceMap {
	rm := NewResourceMap(&fakediscovery.FakeDiscovery{Fake: &clienttesting.Fake{Resources: lists}})
	rm.refresh()
	return rm
}
