package decorator

// Verification harness (injected with go test -overlay; not part of /repo).
// A real decoratorController built by hand over the simulated API server, static caches and an
// in-process webhook.

import (
	"context"
	"encoding/json"
	"fmt"
	"sort"
	"testing"

	"github.com/go-logr/logr"
	metav1 "k8s.io/apimachinery/pkg/apis/meta/v1"
	"k8s.io/apimachinery/pkg/apis/meta/v1/unstructured"
	"k8s.io/apimachinery/pkg/runtime"
	"k8s.io/apimachinery/pkg/runtime/schema"
	utilruntime "k8s.io/apimachinery/pkg/util/runtime"
	"k8s.io/client-go/rest"
	"k8s.io/client-go/tools/cache"
	"k8s.io/client-go/tools/record"

	"metacontroller/pkg/apis/metacontroller/v1alpha1"
	"metacontroller/pkg/controller/common"
	"metacontroller/pkg/controller/common/customize"
	"metacontroller/pkg/controller/common/finalizer"
	dynamicclientset "metacontroller/pkg/dynamic/clientset"
	dynamicdiscovery "metacontroller/pkg/dynamic/discovery"
	dynamicinformer "metacontroller/pkg/dynamic/informer"
	"metacontroller/pkg/hooks"
	vs "metacontroller/pkg/internal/verifsim"
)

var lastSyncError string

func init() {
	utilruntime.ErrorHandlers = []utilruntime.ErrorHandler{func(_ context.Context, err error, msg string, _ ...interface{}) {
		if err != nil {
			lastSyncError = err.Error()
		}
	}}
}

type resSpec struct {
	APIVersion string `json:"apiVersion"`
	Resource   string `json:"resource"`
	Kind       string `json:"kind"`
	Namespaced bool   `json:"namespaced"`
	HasStatus  bool   `json:"hasStatus"`
	Method     string `json:"method,omitempty"`
	LabelSel   vs.M   `json:"labelSelector,omitempty"`
	AnnSel     vs.M   `json:"annotationSelector,omitempty"` // in LabelSelector form (matchLabels = matchAnnotations)
	// resources[].ignoreStatusChanges
	IgnoreStatusChanges bool `json:"ignoreStatusChanges,omitempty"`
}

func (c resSpec) group() string   { g, _ := common.ParseAPIVersion(c.APIVersion); return g }
func (c resSpec) version() string { _, v := common.ParseAPIVersion(c.APIVersion); return v }

type dcfg struct {
	Name        string    `json:"name"`
	Resources   []resSpec `json:"resources"`
	Attachments []resSpec `json:"attachments"`
	Finalize    bool      `json:"finalize"`
	Customize   bool      `json:"customize"`
}

var attachKinds = []resSpec{
	{APIVersion: "example.com/v1", Resource: "widgets", Kind: "Widget", Namespaced: true, HasStatus: true},
	{APIVersion: "v1", Resource: "configmaps", Kind: "ConfigMap", Namespaced: true},
}

type world struct {
	cfg       dcfg
	sim       *vs.Sim
	hook      *vs.HookServer
	c         *decoratorController
	q         *vs.RecQueue
	parentIdx map[string]cache.Indexer
	childIdx  map[string]cache.Indexer
}

func (w *world) close() { w.sim.Close(); w.hook.Close() }

func resourceLists(defs []vs.ResourceDef) []*metav1.APIResourceList {
	by := map[string]*metav1.APIResourceList{}
	var order []string
	for _, d := range defs {
		gv := d.APIVersion()
		l := by[gv]
		if l == nil {
			l = &metav1.APIResourceList{GroupVersion: gv}
			by[gv] = l
			order = append(order, gv)
		}
		// a discovery document lists a subresource before or after its main resource (aggregated API servers do either):
		// resources with a name of even length get theirs listed first
		main := metav1.APIResource{Name: d.Resource, Kind: d.Kind, Namespaced: d.Namespaced, Group: d.Group, Version: d.Version}
		status := metav1.APIResource{Name: d.Resource + "/status", Kind: d.Kind, Namespaced: d.Namespaced, Group: d.Group, Version: d.Version}
		if d.HasStatus && len(d.Resource)%2 == 0 {
			l.APIResources = append(l.APIResources, status)
		}
		l.APIResources = append(l.APIResources, main)
		if d.HasStatus && len(d.Resource)%2 != 0 {
			l.APIResources = append(l.APIResources, status)
		}
	}
	var out []*metav1.APIResourceList
	for _, gv := range order {
		out = append(out, by[gv])
	}
	return out
}

func newIndexer() cache.Indexer {
	return cache.NewIndexer(cache.MetaNamespaceKeyFunc, cache.Indexers{cache.NamespaceIndex: cache.MetaNamespaceIndexFunc})
}

func (cfg dcfg) controller(hookURL func(string) *string) *v1alpha1.DecoratorController {
	dc := &v1alpha1.DecoratorController{
		TypeMeta:   metav1.TypeMeta{APIVersion: "metacontroller.k8s.io/v1alpha1", Kind: "DecoratorController"},
		ObjectMeta: metav1.ObjectMeta{Name: cfg.Name},
	}
	for _, r := range cfg.Resources {
		rule := v1alpha1.DecoratorControllerResourceRule{ResourceRule: v1alpha1.ResourceRule{APIVersion: r.APIVersion, Resource: r.Resource}}
		if r.LabelSel != nil {
			ls := &metav1.LabelSelector{}
			_ = runtime.DefaultUnstructuredConverter.FromUnstructured(r.LabelSel, ls)
			rule.LabelSelector = ls
		}
		if r.IgnoreStatusChanges {
			t := true
			rule.IgnoreStatusChanges = &t
		}
		if r.AnnSel != nil {
			ls := &metav1.LabelSelector{}
			_ = runtime.DefaultUnstructuredConverter.FromUnstructured(r.AnnSel, ls)
			rule.AnnotationSelector = &v1alpha1.AnnotationSelector{MatchAnnotations: ls.MatchLabels, MatchExpressions: ls.MatchExpressions}
		}
		dc.Spec.Resources = append(dc.Spec.Resources, rule)
	}
	for _, a := range cfg.Attachments {
		rule := v1alpha1.DecoratorControllerAttachmentRule{ResourceRule: v1alpha1.ResourceRule{APIVersion: a.APIVersion, Resource: a.Resource}}
		if a.Method != "" {
			rule.UpdateStrategy = &v1alpha1.DecoratorControllerAttachmentUpdateStrategy{Method: v1alpha1.ChildUpdateMethod(a.Method)}
		}
		dc.Spec.Attachments = append(dc.Spec.Attachments, rule)
	}
	dc.Spec.Hooks = &v1alpha1.DecoratorControllerHooks{Sync: &v1alpha1.Hook{Webhook: &v1alpha1.Webhook{URL: hookURL("sync")}}}
	if cfg.Finalize {
		dc.Spec.Hooks.Finalize = &v1alpha1.Hook{Webhook: &v1alpha1.Webhook{URL: hookURL("finalize")}}
	}
	return dc
}

func newWorld(cfg dcfg) *world {
	w := &world{cfg: cfg, parentIdx: map[string]cache.Indexer{}, childIdx: map[string]cache.Indexer{}}
	var defs []vs.ResourceDef
	seen := map[string]bool{}
	add := func(r resSpec) {
		if !seen[r.Resource] {
			seen[r.Resource] = true
			defs = append(defs, vs.ResourceDef{Group: r.group(), Version: r.version(), Resource: r.Resource, Kind: r.Kind, Namespaced: r.Namespaced, HasStatus: r.HasStatus})
		}
	}
	for _, r := range cfg.Resources {
		add(r)
	}
	for _, r := range attachKinds {
		add(r)
	}
	w.sim = vs.NewSim(defs)
	w.hook = vs.NewHookServer(w.sim)
	resources := dynamicdiscovery.NewStaticResourceMap(resourceLists(defs))
	dynClient, err := dynamicclientset.New(&rest.Config{Host: w.sim.URL()}, resources)
	if err != nil {
		panic(err)
	}
	dc := cfg.controller(w.hook.URL)
	syncHook, err := hooks.NewHook(dc.Spec.Hooks.Sync, dc.Name, common.DecoratorController, common.SyncHook)
	if err != nil {
		panic(err)
	}
	finalizeHook, err := hooks.NewHook(dc.Spec.Hooks.Finalize, dc.Name, common.DecoratorController, common.FinalizeHook)
	if err != nil {
		panic(err)
	}
	w.q = &vs.RecQueue{}
	c := &decoratorController{
		dc:              dc,
		resources:       resources,
		dynClient:       dynClient,
		parentKinds:     make(common.GroupKindMap),
		parentInformers: make(common.InformerMap),
		childInformers:  make(common.InformerMap),
		queue:           w.q,
		numWorkers:      1,
		eventRecorder:   record.NewFakeRecorder(100000),
		finalizer:       finalizer.NewManager("metacontroller.io/decoratorcontroller-"+dc.Name, dc.Spec.Hooks.Finalize != nil),
		syncHook:        syncHook,
		finalizeHook:    finalizeHook,
		logger:          logr.Discard(),
	}
	c.customize, err = customize.NewCustomizeManager(dc.Name, c.enqueueParentObject, dc, dynClient, nil, c.parentInformers, c.parentKinds, c.logger, common.CompositeController)
	if err != nil {
		panic(err)
	}
	c.parentSelector, err = newDecoratorSelector(resources, dc)
	if err != nil {
		panic(err)
	}
	for _, p := range dc.Spec.Resources {
		res := resources.Get(p.APIVersion, p.Resource)
		c.parentKinds.Set(schema.GroupKind{Group: res.Group, Kind: res.Kind}, res)
		idx := newIndexer()
		w.parentIdx[p.Resource] = idx
		gv, _ := schema.ParseGroupVersion(p.APIVersion)
		c.parentInformers.Set(gv.WithResource(p.Resource), dynamicinformer.NewStaticResourceInformer(gv.WithResource(p.Resource), idx))
	}
	c.updateStrategy, err = makeUpdateStrategyMap(resources, dc)
	if err != nil {
		panic(err)
	}
	for _, a := range dc.Spec.Attachments {
		idx := newIndexer()
		w.childIdx[a.Resource] = idx
		gv, _ := schema.ParseGroupVersion(a.APIVersion)
		c.childInformers.Set(gv.WithResource(a.Resource), dynamicinformer.NewStaticResourceInformer(gv.WithResource(a.Resource), idx))
	}
	w.c = c
	return w
}

func (w *world) fillCaches() {
	reset := func(idx cache.Indexer, group, resource string) {
		var items []interface{}
		for _, o := range w.sim.List(group, resource) {
			items = append(items, &unstructured.Unstructured{Object: o})
		}
		_ = idx.Replace(items, "")
	}
	for _, r := range w.cfg.Resources {
		reset(w.parentIdx[r.Resource], r.group(), r.Resource)
	}
	for _, r := range w.cfg.Attachments {
		reset(w.childIdx[r.Resource], r.group(), r.Resource)
	}
}

func (w *world) cacheDump() vs.M {
	dump := func(idx cache.Indexer) []interface{} {
		out := []interface{}{}
		keys := idx.ListKeys()
		sort.Strings(keys)
		for _, k := range keys {
			it, _, _ := idx.GetByKey(k)
			out = append(out, vs.CanonObj(it.(*unstructured.Unstructured).Object))
		}
		return out
	}
	parents := []interface{}{}
	var pr []string
	for r := range w.parentIdx {
		pr = append(pr, r)
	}
	sort.Strings(pr)
	for _, r := range pr {
		parents = append(parents, dump(w.parentIdx[r])...)
	}
	children := vs.M{}
	for r, idx := range w.childIdx {
		children[r] = dump(idx)
	}
	return vs.M{"parents": parents, "children": children, "related": vs.M{}, "revisions": []interface{}{}}
}

func (w *world) runSync(key string) (outcome, detail string) {
	w.q.Reset()
	w.q.Pending = []interface{}{key}
	lastSyncError = ""
	defer func() {
		if r := recover(); r != nil {
			outcome, detail = "panic", fmt.Sprint(r)
		}
	}()
	w.c.processNextWorkItem()
	outcome = "ok"
	for _, op := range w.q.Ops {
		if op["op"] == "addRateLimited" {
			outcome = "error"
		}
	}
	return outcome, lastSyncError
}

// ---- scenario ---------------------------------------------------------------------------------

var dmethods = []string{"", "OnDelete", "Recreate", "InPlace", "Bogus", "RollingRecreate", "RollingInPlace"}

func genDCfg(r *vs.Rand) dcfg {
	cfg := dcfg{Name: "dc"}
	p := resSpec{APIVersion: "ctl.example.com/v1", Resource: "things", Kind: "Thing", Namespaced: r.Chance(70), HasStatus: r.Chance(70)}
	if r.Chance(60) {
		p.LabelSel = vs.M{"matchLabels": vs.M{"decorate": "yes"}}
	}
	if r.Chance(40) {
		if r.Bool() {
			p.AnnSel = vs.M{"matchLabels": vs.M{"deco": "on"}}
		} else {
			p.AnnSel = vs.M{"matchExpressions": []interface{}{vs.M{"key": "deco", "operator": "Exists"}}}
		}
	}
	cfg.Resources = []resSpec{p}
	n := r.Intn(3)
	perm := []int{0, 1}
	if r.Bool() {
		perm = []int{1, 0}
	}
	for i := 0; i < n; i++ {
		a := attachKinds[perm[i]]
		a.Method = r.Pick(dmethods)
		cfg.Attachments = append(cfg.Attachments, a)
	}
	cfg.Finalize = r.Chance(40)
	return cfg
}

func str(m map[string]interface{}, path ...string) string {
	var cur interface{} = m
	for _, p := range path {
		mm, ok := cur.(map[string]interface{})
		if !ok {
			return ""
		}
		cur = mm[p]
	}
	s, _ := cur.(string)
	return s
}
func sub(m map[string]interface{}, path ...string) map[string]interface{} {
	var cur interface{} = m
	for _, p := range path {
		mm, ok := cur.(map[string]interface{})
		if !ok {
			return nil
		}
		cur = mm[p]
	}
	mm, _ := cur.(map[string]interface{})
	return mm
}

func hookKey(c resSpec) string {
	if c.group() == "" {
		return c.Kind + "." + c.version()
	}
	return c.Kind + "." + c.APIVersion
}

// The scripted decorator hook reads what to do from the object's spec:
//
//	spec.setLabels / spec.setAnnotations : maps (null values delete), spec.setStatus, spec.attach (count), spec.image
func scriptedHook(cfg dcfg) func(name string, req map[string]interface{}) vs.HookAnswer {
	return func(name string, req map[string]interface{}) vs.HookAnswer {
		obj := sub(req, "object")
		finalizing, _ := req["finalizing"].(bool)
		resp := vs.M{}
		if l, ok := sub(obj, "spec")["setLabels"]; ok {
			resp["labels"] = l
		}
		if a, ok := sub(obj, "spec")["setAnnotations"]; ok {
			resp["annotations"] = a
		}
		if s, ok := sub(obj, "spec")["setStatus"]; ok {
			resp["status"] = s
		}
		atts := []interface{}{}
		observed := 0
		if len(cfg.Attachments) > 0 {
			observed = len(sub(req, "attachments", hookKey(cfg.Attachments[0])))
		}
		if !finalizing {
			n := 0
			if v, ok := sub(obj, "spec")["attach"].(int64); ok {
				n = int(v)
			}
			for i := 0; i < n && len(cfg.Attachments) > 0; i++ {
				a := cfg.Attachments[0]
				o := vs.M{"apiVersion": a.APIVersion, "kind": a.Kind, "metadata": vs.M{"name": fmt.Sprintf("%s-att-%d", str(obj, "metadata", "name"), i)}}
				if str(obj, "metadata", "namespace") == "" {
					o["metadata"].(vs.M)["namespace"] = "ns1"
				}
				if a.Kind == "ConfigMap" {
					o["data"] = vs.M{"image": str(obj, "spec", "image")}
				} else {
					o["spec"] = vs.M{"image": str(obj, "spec", "image")}
				}
				atts = append(atts, o)
			}
		}
		resp["attachments"] = atts
		if finalizing {
			resp["finalized"] = observed == 0
		}
		b, _ := json.Marshal(resp)
		return vs.HookAnswer{Code: 200, Body: b}
	}
}

type scenario struct {
	Cfg   dcfg
	w     *world
	key   string
	tname string // name of the target; now and then one with a ':' in it (legal for RBAC kinds, and the queue key is ':'-separated)
}

func buildScenario(r *vs.Rand, cfg dcfg) *scenario {
	sc := &scenario{Cfg: cfg}
	w := newWorld(cfg)
	sc.w = w
	w.hook.Handler = scriptedHook(cfg)
	p := cfg.Resources[0]
	ns := ""
	if p.Namespaced {
		ns = "ns1"
	}
	labels := vs.M{}
	if r.Chance(75) {
		labels["decorate"] = "yes"
	}
	if r.Chance(30) {
		labels["keep"] = "k"
	}
	ann := vs.M{}
	if r.Chance(70) {
		ann["deco"] = "on"
	}
	if r.Chance(30) {
		ann["note"] = "n"
	}
	spec := vs.M{"image": r.Pick([]string{"v1", "v2"}), "attach": int64(r.Intn(3))}
	if r.Chance(60) {
		sl := vs.M{}
		for _, k := range []string{"added", "keep", "gone"} {
			switch r.Intn(4) {
			case 0:
				sl[k] = r.Pick([]string{"x", "k"})
			case 1:
				sl[k] = nil
			}
		}
		spec["setLabels"] = sl
	}
	if r.Chance(40) {
		sa := vs.M{}
		for _, k := range []string{"hooked", "note"} {
			switch r.Intn(3) {
			case 0:
				sa[k] = r.Pick([]string{"x", "n"})
			case 1:
				sa[k] = nil
			}
		}
		spec["setAnnotations"] = sa
	}
	switch r.Intn(4) {
	case 0:
		spec["setStatus"] = vs.M{"phase": r.Pick([]string{"A", "B"})}
	case 1:
		spec["setStatus"] = vs.M{}
	}
	sc.tname = "t1"
	if r.Chance(12) {
		sc.tname = "sys:t1"
	}
	md := vs.M{"name": sc.tname}
	if ns != "" {
		md["namespace"] = ns
	}
	if len(labels) > 0 || r.Bool() {
		md["labels"] = labels
	}
	if len(ann) > 0 || r.Bool() {
		md["annotations"] = ann
	}
	finName := "metacontroller.io/decoratorcontroller-" + cfg.Name
	var fins []interface{}
	if r.Chance(15) {
		fins = append(fins, "example.com/other")
	}
	if (cfg.Finalize && r.Chance(70)) || (!cfg.Finalize && r.Chance(10)) {
		fins = append(fins, finName)
	}
	if r.Chance(15) {
		if r.Chance(25) {
			fins = append(fins, "orphan")
		}
		if len(fins) == 0 {
			fins = append(fins, "example.com/blocker")
		}
		md["deletionTimestamp"] = "2024-01-01T00:00:01Z"
	}
	if len(fins) > 0 {
		md["finalizers"] = fins
	}
	target := vs.M{"apiVersion": p.APIVersion, "kind": p.Kind, "metadata": md, "spec": spec}
	switch r.Intn(3) {
	case 0:
		target["status"] = vs.M{"phase": r.Pick([]string{"A", "B"})}
	case 1:
		target["status"] = vs.M{}
	}
	stored := w.sim.Put(p.group(), p.Resource, target)
	sc.key = fmt.Sprintf("%s:%s:%s:%s", p.APIVersion, p.Kind, ns, sc.tname)
	owner := func(controller bool) vs.M {
		return vs.M{"apiVersion": p.APIVersion, "kind": p.Kind, "name": sc.tname, "uid": str(stored, "metadata", "uid"), "controller": controller, "blockOwnerDeletion": true}
	}
	for _, a := range cfg.Attachments {
		mk := func(name, marker string, own interface{}, image string) vs.M {
			m := vs.M{"name": name, "namespace": "ns1"}
			if marker != "" {
				m["annotations"] = vs.M{"metacontroller.k8s.io/decorator-controller": marker}
			}
			if own != nil {
				m["ownerReferences"] = []interface{}{own}
			}
			o := vs.M{"apiVersion": a.APIVersion, "kind": a.Kind, "metadata": m}
			if a.Kind == "ConfigMap" {
				o["data"] = vs.M{"image": image}
			} else {
				o["spec"] = vs.M{"image": image}
			}
			return o
		}
		for i := 0; i < 3; i++ {
			name := fmt.Sprintf("t1-att-%d", i)
			switch r.Intn(8) {
			case 7: // carries the marker and names the target as a plain owner, but is controlled by someone else
				o := mk(name, cfg.Name, owner(false), "v0")
				refs := o["metadata"].(vs.M)["ownerReferences"].([]interface{})
				o["metadata"].(vs.M)["ownerReferences"] = append(refs, vs.M{"apiVersion": "apps/v1", "kind": "Other", "name": "boss", "uid": "uid-boss", "controller": true})
				w.sim.Put(a.group(), a.Resource, o)
			case 0, 1:
			case 2: // ours, up to date
				o := mk(name, cfg.Name, owner(true), str(spec, "image"))
				la := vs.M{"apiVersion": a.APIVersion, "kind": a.Kind, "metadata": vs.M{"name": name, "annotations": vs.M{"metacontroller.k8s.io/decorator-controller": cfg.Name}}}
				if a.Kind == "ConfigMap" {
					la["data"] = vs.M{"image": str(spec, "image")}
				} else {
					la["spec"] = vs.M{"image": str(spec, "image")}
				}
				if str(stored, "metadata", "namespace") != "" {
					la["metadata"].(vs.M)["namespace"] = "ns1"
				} else {
					la["metadata"].(vs.M)["namespace"] = "ns1"
				}
				o["metadata"].(vs.M)["annotations"].(vs.M)[vs.LastAppliedAnnotation] = vs.MustJSON(la)
				w.sim.Put(a.group(), a.Resource, o)
			case 3: // ours, stale
				w.sim.Put(a.group(), a.Resource, mk(name, cfg.Name, owner(true), "v0"))
			case 4: // another decorator's attachment for the same target
				w.sim.Put(a.group(), a.Resource, mk(name, "other-dc", owner(true), "v0"))
			case 5: // owned by the target but without marker (another controller made it)
				w.sim.Put(a.group(), a.Resource, mk(name, "", owner(true), "v0"))
			case 6: // marker but no owner reference
				w.sim.Put(a.group(), a.Resource, mk(name, cfg.Name, nil, "v0"))
			}
		}
		if r.Chance(40) {
			w.sim.Put(a.group(), a.Resource, mk("t1-att-extra", cfg.Name, owner(true), "v0"))
		}
	}
	w.fillCaches()
	if r.Chance(20) {
		// somebody else writes the target after the cache was filled: what the sync holds is stale, its write conflicts
		w.sim.Mutate(p.group(), p.Resource, ns, sc.tname, func(o map[string]interface{}) {
			md := o["metadata"].(map[string]interface{})
			switch r.Intn(3) {
			case 0:
				sp, _ := o["spec"].(map[string]interface{})
				if sp == nil {
					sp = map[string]interface{}{}
					o["spec"] = sp
				}
				sp["outside"] = int64(7)
				g, _ := md["generation"].(int64)
				md["generation"] = g + 1
			case 1:
				ann, _ := md["annotations"].(map[string]interface{})
				if ann == nil {
					ann = map[string]interface{}{}
					md["annotations"] = ann
				}
				ann["outside"] = "yes"
			case 2:
				fs, _ := md["finalizers"].([]interface{})
				md["finalizers"] = append(fs, "example.com/late")
			}
		})
	}
	return sc
}

func (sc *scenario) syncOnce(i int, seed uint64) vs.M {
	w := sc.w
	w.sim.ResetLog()
	storeBefore := w.sim.Snapshot()
	cacheBefore := w.cacheDump()
	outcome, detail := w.runSync(sc.key)
	cacheAfter := w.cacheDump()
	return vs.M{"kind": "sync", "ctl": "decorator", "case": i, "seed": seed, "cfg": sc.Cfg, "key": sc.key,
		"cache": cacheBefore, "storeBefore": storeBefore, "calls": w.sim.LogCopy(), "storeAfter": w.sim.Snapshot(), "defs": w.sim.Defs(),
		"result":      vs.M{"outcome": outcome, "detail": detail, "queue": w.q.Ops},
		"cacheIntact": vs.MustJSON(cacheBefore) == vs.MustJSON(cacheAfter)}
}

func TestVerifSync(t *testing.T) {
	seed, n := vs.Params(500)
	out := vs.OpenOut()
	defer out.Close()
	for i := 0; i < n; i++ {
		if !vs.Mine(i) {
			continue
		}
		r := vs.CaseRand(seed, i)
		sc := buildScenario(r, genDCfg(r))
		out.Line(sc.syncOnce(i, seed))
		sc.w.close()
	}
}
