package decorator

// Watch-event handlers of the decorator controller: the real enqueueParentObject / updateParentObject /
// onChildAdd|Update|Delete are called with workers off; the queue is read afterwards.

import (
	"fmt"
	"sort"
	"testing"

	"k8s.io/apimachinery/pkg/apis/meta/v1/unstructured"
	"k8s.io/client-go/tools/cache"

	vs "metacontroller/pkg/internal/verifsim"
)

func u(o map[string]interface{}) *unstructured.Unstructured {
	return &unstructured.Unstructured{Object: vs.DeepCopy(o).(map[string]interface{})}
}

func metaOf(o map[string]interface{}) map[string]interface{} {
	md, _ := o["metadata"].(map[string]interface{})
	if md == nil {
		md = map[string]interface{}{}
		o["metadata"] = md
	}
	return md
}

func bump(o map[string]interface{}) {
	md := metaOf(o)
	md["resourceVersion"] = fmt.Sprint(md["resourceVersion"]) + "1"
}

func mutateTarget(r *vs.Rand, p map[string]interface{}) map[string]interface{} {
	c := vs.DeepCopy(p).(map[string]interface{})
	md := metaOf(c)
	bump(c)
	switch r.Intn(8) {
	case 0:
		c["status"] = vs.M{"phase": "Z", "touched": true}
	case 1:
		g, _ := md["generation"].(int64)
		md["generation"] = g + 1
	case 2:
		l, _ := md["labels"].(map[string]interface{})
		if l == nil {
			l = map[string]interface{}{}
		}
		l["extra"] = "x"
		md["labels"] = l
	case 3:
		if r.Bool() {
			delete(md, "annotations")
		} else {
			md["annotations"] = map[string]interface{}{}
		}
	case 4:
		a, _ := md["annotations"].(map[string]interface{})
		if a == nil {
			a = map[string]interface{}{}
		}
		a["note"] = "changed"
		md["annotations"] = a
	case 5:
		md["deletionTimestamp"] = "2024-01-02T00:00:00Z"
		f, _ := md["finalizers"].([]interface{})
		md["finalizers"] = append(f, "example.com/blocker")
	case 6:
		md["labels"] = map[string]interface{}{"decorate": r.Pick([]string{"yes", "no"})}
	case 7:
		return vs.DeepCopy(p).(map[string]interface{})
	}
	return c
}

func queueKeys(q *vs.RecQueue) []string {
	out := []string{}
	for _, op := range q.Ops {
		if op["op"] == "add" {
			out = append(out, fmt.Sprint(op["key"]))
		}
	}
	sort.Strings(out)
	return out
}

func TestVerifEvents(t *testing.T) {
	seed, n := vs.Params(500)
	out := vs.OpenOut()
	defer out.Close()
	for i := 0; i < n; i++ {
		if !vs.Mine(i) {
			continue
		}
		r := vs.CaseRand(seed, i)
		cfg := genDCfg(r)
		cfg.Resources[0].IgnoreStatusChanges = r.Chance(50)
		sc := buildScenario(r, cfg)
		w := sc.w
		er := vs.CaseRand(seed+4242, i)
		p := cfg.Resources[0]
		ns := ""
		if p.Namespaced {
			ns = "ns1"
		}
		t1 := w.sim.GetObj(p.group(), p.Resource, ns, sc.tname)
		// more targets: selected, unselected, unselected but carrying the finalizer
		for _, v := range []string{"sel", "unsel", "unsel-fin"} {
			c := vs.DeepCopy(t1).(map[string]interface{})
			md := metaOf(c)
			md["name"] = "t-" + v
			delete(md, "uid")
			delete(md, "resourceVersion")
			delete(md, "finalizers")
			delete(md, "deletionTimestamp")
			switch v {
			case "sel":
				md["labels"] = map[string]interface{}{"decorate": "yes"}
				md["annotations"] = map[string]interface{}{"deco": "on"}
			default:
				md["labels"] = map[string]interface{}{"decorate": "no"}
				md["annotations"] = map[string]interface{}{}
				if v == "unsel-fin" {
					md["finalizers"] = []interface{}{"metacontroller.io/decoratorcontroller-" + cfg.Name}
				}
			}
			w.sim.Put(p.group(), p.Resource, c)
		}
		w.fillCaches()
		for k := 0; k < 6; k++ {
			role := er.Pick([]string{"parent", "child", "child"})
			if len(cfg.Attachments) == 0 {
				role = "parent"
			}
			typ := er.Pick([]string{"add", "update", "update", "delete"})
			tomb := typ == "delete" && er.Chance(40)
			var old, obj map[string]interface{}
			resource := ""
			if role == "parent" {
				ps := w.sim.List(p.group(), p.Resource)
				obj = ps[er.Intn(len(ps))]
				if typ == "update" {
					old = obj
					obj = mutateTarget(er, old)
				}
			} else {
				a := cfg.Attachments[er.Intn(len(cfg.Attachments))]
				resource = a.Resource
				objs := w.sim.List(a.group(), a.Resource)
				if len(objs) > 0 && er.Chance(80) {
					obj = vs.DeepCopy(objs[er.Intn(len(objs))]).(map[string]interface{})
				} else {
					obj = vs.M{"apiVersion": a.APIVersion, "kind": a.Kind, "metadata": vs.M{"name": "fresh", "namespace": "ns1", "uid": "uid-fresh", "resourceVersion": "900"}}
				}
				md := metaOf(obj)
				target := w.sim.List(p.group(), p.Resource)[er.Intn(len(w.sim.List(p.group(), p.Resource)))]
				ref := vs.M{"apiVersion": p.APIVersion, "kind": p.Kind, "name": str(target, "metadata", "name"), "uid": str(target, "metadata", "uid"), "controller": true, "blockOwnerDeletion": true}
				switch er.Intn(9) {
				case 0: // as stored
				case 1:
					md["ownerReferences"] = []interface{}{ref}
				case 2: // wrong UID
					ref["uid"] = "uid-gone"
					md["ownerReferences"] = []interface{}{ref}
				case 3: // wrong kind
					ref["kind"] = "OtherKind"
					md["ownerReferences"] = []interface{}{ref}
				case 4: // other group
					ref["apiVersion"] = "other.example.com/v1"
					md["ownerReferences"] = []interface{}{ref}
				case 5: // same group, other version
					ref["apiVersion"] = "ctl.example.com/v2"
					md["ownerReferences"] = []interface{}{ref}
				case 6: // orphan
					delete(md, "ownerReferences")
				case 7: // other namespace
					md["namespace"] = "ns2"
					md["ownerReferences"] = []interface{}{ref}
				case 8: // being deleted
					md["deletionTimestamp"] = "2024-01-02T00:00:00Z"
					md["ownerReferences"] = []interface{}{ref}
				}
				if typ == "update" {
					old = vs.DeepCopy(obj).(map[string]interface{})
					if !er.Chance(25) {
						bump(obj)
					}
				}
			}
			w.q.Reset()
			func() {
				defer func() {
					if rec := recover(); rec != nil {
						w.q.Ops = append(w.q.Ops, map[string]interface{}{"op": "panic", "key": fmt.Sprint(rec)})
					}
				}()
				var arg interface{} = u(obj)
				if tomb {
					key, _ := cache.MetaNamespaceKeyFunc(u(obj))
					arg = cache.DeletedFinalStateUnknown{Key: key, Obj: u(obj)}
				}
				switch role + "/" + typ {
				case "parent/add", "parent/delete":
					w.c.enqueueParentObject(arg)
				case "parent/update":
					w.c.updateParentObject(u(old), u(obj))
				case "child/add":
					w.c.onChildAdd(u(obj))
				case "child/update":
					w.c.onChildUpdate(u(old), u(obj))
				case "child/delete":
					w.c.onChildDelete(arg)
				}
			}()
			panicked := false
			for _, op := range w.q.Ops {
				if op["op"] == "panic" {
					panicked = true
				}
			}
			// can every queued key be parsed back into a parent identity?
			badKey := ""
			for _, k := range queueKeys(w.q) {
				if _, _, _, _, err := splitParentQueueKey(k); err != nil {
					badKey = k
				}
			}
			out.Line(vs.M{"kind": "event", "ctl": "decorator", "case": i*10 + k, "seed": seed, "cfg": cfg,
				"parents": w.cacheDump()["parents"], "role": role, "type": typ, "tombstone": tomb, "resource": resource,
				"old": old, "obj": obj, "answers": vs.M{}, "customizeCalls": 0, "queue": queueKeys(w.q), "panic": panicked, "badKey": badKey})
		}
		sc.w.close()
	}
}
