package decorator

// Hosted decorator controllers follow their DecoratorController objects (see harness/composite/meta_test.go).

import (
	"context"
	"fmt"
	"sort"
	"strings"
	"sync"
	"testing"
	"time"

	"github.com/go-logr/logr"
	metav1 "k8s.io/apimachinery/pkg/apis/meta/v1"
	"k8s.io/apimachinery/pkg/apis/meta/v1/unstructured"
	"k8s.io/apimachinery/pkg/runtime"
	"k8s.io/apimachinery/pkg/types"
	"k8s.io/client-go/rest"
	"k8s.io/client-go/tools/record"
	"sigs.k8s.io/controller-runtime/pkg/client/fake"
	"sigs.k8s.io/controller-runtime/pkg/reconcile"

	"metacontroller/pkg/apis/metacontroller/v1alpha1"
	dynamicclientset "metacontroller/pkg/dynamic/clientset"
	dynamicdiscovery "metacontroller/pkg/dynamic/discovery"
	dynamicinformer "metacontroller/pkg/dynamic/informer"
	vs "metacontroller/pkg/internal/verifsim"
)

var metaDefs = []vs.ResourceDef{
	{Group: "ctl.example.com", Version: "v1", Resource: "things", Kind: "Thing", Namespaced: true, HasStatus: true},
	{Group: "example.com", Version: "v1", Resource: "widgets", Kind: "Widget", Namespaced: true, HasStatus: true},
	{Group: "", Version: "v1", Resource: "configmaps", Kind: "ConfigMap", Namespaced: true},
}

func metaSpec(class, name string, ver int, hookBase string) v1alpha1.DecoratorControllerSpec {
	url := fmt.Sprintf("%s/sync-%s-%d", hookBase, name, ver)
	sp := v1alpha1.DecoratorControllerSpec{
		Resources:   []v1alpha1.DecoratorControllerResourceRule{{ResourceRule: v1alpha1.ResourceRule{APIVersion: "ctl.example.com/v1", Resource: "things"}}},
		Attachments: []v1alpha1.DecoratorControllerAttachmentRule{{ResourceRule: v1alpha1.ResourceRule{APIVersion: "example.com/v1", Resource: "widgets"}}},
		Hooks:       &v1alpha1.DecoratorControllerHooks{Sync: &v1alpha1.Hook{Webhook: &v1alpha1.Webhook{URL: &url}}},
	}
	switch class {
	case "ok":
	case "ok2":
		sp.Attachments = append(sp.Attachments, v1alpha1.DecoratorControllerAttachmentRule{ResourceRule: v1alpha1.ResourceRule{APIVersion: "v1", Resource: "configmaps"}})
	case "ok-etag":
		t := true
		sp.Hooks.Sync.Webhook.Etag = &v1alpha1.WebhookEtagConfig{Enabled: &t}
		if ver%2 == 0 {
			s := int32(60)
			sp.Hooks.Sync.Webhook.Etag.CacheTimeoutSeconds = &s
		}
		if ver%3 == 0 {
			s := int32(30)
			sp.Hooks.Sync.Webhook.Etag.CacheCleanupSeconds = &s
		}
	case "ok-finalize":
		sp.Hooks.Finalize = &v1alpha1.Hook{Webhook: &v1alpha1.Webhook{URL: &url}}
	case "ok-resync": // legal but unusual resync periods: zero, negative, one second
		rp := []int32{0, -5, 1}[ver%3]
		sp.ResyncPeriodSeconds = &rp
	case "ok-customize": // a customize hook selecting all configmaps: the related informer is opened by the first sync
		curl := url + "-customize"
		sp.Hooks.Customize = &v1alpha1.Hook{Webhook: &v1alpha1.Webhook{URL: &curl}}
	case "d-badresource":
		sp.Resources[0].Resource = "nonesuch"
	case "d-badattach":
		sp.Attachments = append(sp.Attachments, v1alpha1.DecoratorControllerAttachmentRule{ResourceRule: v1alpha1.ResourceRule{APIVersion: "example.com/v1", Resource: "nonesuch"}})
	case "d-nohooks":
		sp.Hooks = nil
	case "d-badwebhook":
		sp.Hooks.Sync.Webhook = &v1alpha1.Webhook{}
	case "d-badselector":
		sp.Resources[0].LabelSelector = &metav1.LabelSelector{MatchExpressions: []metav1.LabelSelectorRequirement{{Key: "a", Operator: "Bogus"}}}
	}
	return sp
}

var metaClasses = []string{"ok", "ok", "ok2", "ok-etag", "ok-finalize", "ok-resync", "ok-customize", "d-badresource", "d-badattach", "d-nohooks", "d-badwebhook", "d-badselector"}

func TestVerifMeta(t *testing.T) {
	seed, n := vs.Params(40)
	out := vs.OpenOut()
	defer out.Close()
	for i := 0; i < n; i++ {
		if !vs.Mine(i) {
			continue
		}
		r := vs.CaseRand(seed, i)
		sim := vs.NewSim(metaDefs)
		hook := vs.NewHookServer(sim)
		var hmu sync.Mutex
		slow, entered := map[string]bool{}, map[string]int{}
		hook.Handler = func(name string, req map[string]interface{}) vs.HookAnswer {
			base := strings.TrimSuffix(name, "-customize")
			hmu.Lock()
			entered[base]++
			slowNow := slow[base]
			hmu.Unlock()
			if strings.HasSuffix(name, "-customize") {
				return vs.HookAnswer{Code: 200, Body: []byte(`{"relatedResources":[{"apiVersion":"v1","resource":"configmaps"}]}`)}
			}
			if slowNow {
				time.Sleep(150 * time.Millisecond) // a sync that is still in flight when its controller is stopped
			}
			return vs.HookAnswer{Code: 200, Body: []byte(`{"attachments":[]}`)}
		}
		hookBase := strings.TrimSuffix(*hook.URL(""), "/")
		resources := dynamicdiscovery.NewStaticResourceMap(resourceLists(metaDefs))
		dynClient, err := dynamicclientset.New(&rest.Config{Host: sim.URL()}, resources)
		if err != nil {
			t.Fatal(err)
		}
		scheme := runtime.NewScheme()
		_ = v1alpha1.AddToScheme(scheme)
		k8s := fake.NewClientBuilder().WithScheme(scheme).Build()
		factory := dynamicinformer.NewSharedInformerFactory(dynClient, 10*time.Minute)
		mc := &Metacontroller{k8sClient: k8s, resources: resources, dynClient: dynClient, dynInformers: factory,
			eventRecorder: record.NewFakeRecorder(100000), decoratorControllers: map[string]*decoratorController{}, numWorkers: 1, logger: logr.Discard()}
		thingClient, _ := dynClient.Resource("ctl.example.com/v1", "things")
		thing := &unstructured.Unstructured{Object: map[string]interface{}{"apiVersion": "ctl.example.com/v1", "kind": "Thing",
			"metadata": map[string]interface{}{"name": "t1", "namespace": "ns1"}, "spec": map[string]interface{}{"v": int64(0)}}}
		if _, err := thingClient.Namespace("ns1").Create(context.TODO(), thing, metav1.CreateOptions{}); err != nil {
			t.Fatal(err)
		}
		hookPaths := func() map[string]int {
			m := map[string]int{}
			for _, e := range sim.LogCopy() {
				if e.Verb == "hook" {
					m[strings.TrimSuffix(e.Hook, "-customize")]++ // a customize call is a call on behalf of that instance
				}
			}
			return m
		}
		ver, exists, class := map[string]int{}, map[string]bool{}, map[string]string{}
		var events []vs.M
		nev := 3 + r.Intn(5)
		for k := 0; k < nev; k++ {
			name := r.Pick([]string{"a", "a", "b"})
			ev := vs.M{"name": name}
			ctx := context.TODO()
			switch {
			case !exists[name]:
				ver[name]++
				class[name] = metaClasses[r.Intn(len(metaClasses))]
				dc := &v1alpha1.DecoratorController{ObjectMeta: metav1.ObjectMeta{Name: name}, Spec: metaSpec(class[name], name, ver[name], hookBase)}
				if err := k8s.Create(ctx, dc); err != nil {
					t.Fatal(err)
				}
				exists[name] = true
				ev["type"] = "create"
			default:
				dc := &v1alpha1.DecoratorController{}
				_ = k8s.Get(ctx, types.NamespacedName{Name: name}, dc)
				switch r.Intn(4) {
				case 0:
					if err := k8s.Delete(ctx, dc); err != nil {
						t.Fatal(err)
					}
					exists[name] = false
					ev["type"] = "delete"
				case 1:
					dc.Labels = map[string]string{"touched": fmt.Sprint(k)}
					if err := k8s.Update(ctx, dc); err != nil {
						t.Fatal(err)
					}
					ev["type"] = "noop-update"
				default:
					ver[name]++
					class[name] = metaClasses[r.Intn(len(metaClasses))]
					dc.Spec = metaSpec(class[name], name, ver[name], hookBase)
					if err := k8s.Update(ctx, dc); err != nil {
						t.Fatal(err)
					}
					ev["type"] = "update"
				}
			}
			ev["class"] = class[name]
			ev["ver"] = ver[name]
			// sometimes the instance this event stops is in the middle of a sync (its hook call entered, not yet answered)
			inflightPath := ""
			if c, ok := mc.decoratorControllers[name]; ok && (ev["type"] == "delete" || ev["type"] == "update") && r.Chance(40) {
				if sp := c.dc.Spec; sp.Hooks != nil && sp.Hooks.Sync != nil && sp.Hooks.Sync.Webhook != nil && sp.Hooks.Sync.Webhook.URL != nil {
					u := *sp.Hooks.Sync.Webhook.URL
					inflightPath = u[strings.LastIndex(u, "/")+1:]
					hmu.Lock()
					slow[inflightPath] = true
					e0 := entered[inflightPath]
					hmu.Unlock()
					if cur, gerr := thingClient.Namespace("ns1").Get(ctx, "t1", metav1.GetOptions{}); gerr == nil {
						cur.Object["spec"].(map[string]interface{})["v"] = int64(1000 + k)
						_, _ = thingClient.Namespace("ns1").Update(ctx, cur, metav1.UpdateOptions{})
					}
					dl := time.Now().Add(2 * time.Second)
					for time.Now().Before(dl) {
						hmu.Lock()
						in := entered[inflightPath] > e0
						hmu.Unlock()
						if in {
							break
						}
						time.Sleep(2 * time.Millisecond)
					}
				}
			}
			ev["inflight"] = inflightPath != ""
			var recErr error
			panicked := ""
			func() {
				defer func() {
					if rec := recover(); rec != nil {
						panicked = fmt.Sprint(rec)
					}
				}()
				_, recErr = mc.Reconcile(ctx, reconcile.Request{NamespacedName: types.NamespacedName{Name: name}})
			}()
			ev["error"] = recErr != nil
			ev["panic"] = panicked
			if inflightPath != "" {
				hmu.Lock()
				slow[inflightPath] = false
				hmu.Unlock()
			}
			running := vs.M{}
			instances := vs.M{} // identity of each hosted instance: an untouched controller keeps its instance
			var wantPaths []string
			for n2, c := range mc.decoratorControllers {
				u := *c.dc.Spec.Hooks.Sync.Webhook.URL
				p := u[strings.LastIndex(u, "/")+1:]
				running[n2] = p
				instances[n2] = fmt.Sprintf("%p", c)
				wantPaths = append(wantPaths, p)
			}
			ev["instances"] = instances
			before := hookPaths()
			if cur, gerr := thingClient.Namespace("ns1").Get(ctx, "t1", metav1.GetOptions{}); gerr == nil {
				cur.Object["spec"] = map[string]interface{}{"v": int64(k + 1)}
				_, _ = thingClient.Namespace("ns1").Update(ctx, cur, metav1.UpdateOptions{})
			}
			deadline := time.Now().Add(5 * time.Second)
			for time.Now().Before(deadline) {
				now := hookPaths()
				ok := true
				for _, p := range wantPaths {
					if now[p] <= before[p] {
						ok = false
					}
				}
				if ok {
					break
				}
				time.Sleep(3 * time.Millisecond)
			}
			time.Sleep(60 * time.Millisecond)
			after := hookPaths()
			called := []string{}
			for p, c := range after {
				if c > before[p] {
					called = append(called, p)
				}
			}
			sort.Strings(called)
			ev["running"] = running
			ev["called"] = called
			rc, _ := factory.VerifCounts()
			ev["refCount"] = rc
			events = append(events, ev)
		}
		for _, c := range mc.decoratorControllers {
			c.Stop()
		}
		rc, _ := factory.VerifCounts()
		out.Line(vs.M{"kind": "meta", "ctl": "decorator", "case": i, "seed": seed, "events": events, "finalRefCount": rc})
		hook.Close()
		sim.Server.CloseClientConnections() // a leaked informer's watch must not keep Close() waiting
		sim.Close()
	}
}
