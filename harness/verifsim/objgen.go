package verifsim

import "fmt"

// OGen generates Kubernetes-shaped objects for the apply / sync streams.
type OGen struct {
	R *Rand
	J *JGen
}

func NewOGen(r *Rand) *OGen { return &OGen{R: r, J: &JGen{R: r, MaxDepth: 3}} }

var labelKeys = []string{"app", "tier", "role"}
var labelVals = []string{"a", "b", "c"}

func (g *OGen) StringMap(keys, vals []string, max int) map[string]interface{} {
	m := map[string]interface{}{}
	n := g.R.Intn(max + 1)
	for i := 0; i < n; i++ {
		m[g.R.Pick(keys)] = g.R.Pick(vals)
	}
	return m
}

// Spec generates a small spec tree: scalars, a nested map and sometimes a name-keyed list.
func (g *OGen) Spec() M {
	s := M{"image": g.R.Pick([]string{"v1", "v2", "v3"})}
	if g.R.Chance(60) {
		s["replicas"] = int64(g.R.Intn(4))
	}
	if g.R.Chance(40) {
		s["template"] = M{"a": g.J.Scalar(), "b": g.J.Value(2)}
	}
	if g.R.Chance(40) {
		n := 1 + g.R.Intn(3)
		var l []interface{}
		for i := 0; i < n; i++ {
			it := M{"name": fmt.Sprintf("c%d", i), "image": g.R.Pick([]string{"v1", "v2"})}
			if g.R.Chance(40) {
				it["args"] = []interface{}{g.R.Pick(strVals)}
			}
			l = append(l, it)
		}
		s["containers"] = l
	}
	if g.R.Chance(15) {
		s[g.J.key()] = g.J.Value(1)
	}
	return s
}

// ApplyPair generates (orig, update) for ApplyUpdate: orig is a stored child that was last
// applied from `last`; update is the hook's new partial object, derived from `last`.
func (g *OGen) ApplyPair() (orig, update M) {
	name := g.R.Pick([]string{"child-a", "child-b"})
	last := M{
		"apiVersion": "example.com/v1", "kind": "Widget",
		"metadata": M{"name": name, "labels": g.StringMap(labelKeys, labelVals, 2)},
		"spec":     g.Spec(),
	}
	if g.R.Chance(30) {
		last["metadata"].(M)["annotations"] = g.StringMap([]string{"note", "owner"}, labelVals, 2)
	}
	// an earlier hook answer that carried a status (the create path records it verbatim in last-applied); later answers often drop it
	lastHasStatus := g.R.Chance(15)
	if lastHasStatus {
		last["status"] = M{"ready": true}
	}
	// observed: last + drift + foreign fields + system metadata + status
	o, isMap := g.J.Mutate(last, 1).(map[string]interface{})
	if !isMap || g.R.Chance(60) {
		o = DeepCopy(last).(map[string]interface{})
		if g.R.Chance(50) {
			if sp, ok := o["spec"].(map[string]interface{}); ok {
				sp["foreign"] = g.J.Value(2)
			}
		}
	}
	o["apiVersion"], o["kind"] = "example.com/v1", "Widget"
	md, ok := o["metadata"].(map[string]interface{})
	if !ok {
		md = M{}
		o["metadata"] = md
	}
	md["name"] = name
	md["namespace"] = "ns1"
	md["uid"] = "uid-" + name
	md["resourceVersion"] = fmt.Sprint(10 + g.R.Intn(5))
	md["generation"] = int64(1 + g.R.Intn(3))
	md["creationTimestamp"] = "2024-01-01T00:00:00Z"
	if g.R.Chance(15) {
		md["deletionTimestamp"] = "2024-01-02T00:00:00Z"
	}
	if g.R.Chance(30) {
		md["ownerReferences"] = []interface{}{M{"apiVersion": "ctl.example.com/v1", "kind": "Thing", "name": "p", "uid": "puid", "controller": true, "blockOwnerDeletion": true}}
	}
	ann, ok := md["annotations"].(map[string]interface{})
	if !ok {
		ann = M{}
	}
	switch g.R.Intn(10) {
	case 0: // never applied
	case 1:
		ann[LastAppliedAnnotation] = ""
	default:
		ann[LastAppliedAnnotation] = MustJSON(last)
	}
	if len(ann) > 0 || g.R.Bool() {
		md["annotations"] = ann
	}
	if g.R.Chance(60) {
		o["status"] = M{"observedGeneration": int64(g.R.Intn(3)), "ready": g.R.Bool()}
	}
	// update: usually a mutation of last
	var u map[string]interface{}
	switch g.R.Intn(4) {
	case 0:
		u = DeepCopy(last).(map[string]interface{}) // unchanged desired
	default:
		u = DeepCopy(last).(map[string]interface{})
		u["spec"] = g.J.Mutate(u["spec"], 1)
		if g.R.Chance(30) {
			u["metadata"].(map[string]interface{})["labels"] = g.StringMap(labelKeys, labelVals, 2)
		}
	}
	if lastHasStatus && g.R.Chance(70) {
		delete(u, "status")
	}
	umd, ok := u["metadata"].(map[string]interface{})
	if !ok {
		umd = M{"name": name}
		u["metadata"] = umd
	}
	if g.R.Chance(30) {
		umd["namespace"] = "ns1"
	}
	if g.R.Chance(10) { // attempts to set system fields / status: must be reverted
		umd["uid"] = "other"
		umd["resourceVersion"] = "999"
		umd["generation"] = int64(77)
	}
	if g.R.Chance(10) {
		u["status"] = M{"ready": true, "hacked": "yes"}
	}
	if g.R.Chance(8) { // hook echoes the annotation back: must be stripped
		a, ok := umd["annotations"].(map[string]interface{})
		if !ok {
			a = M{}
			umd["annotations"] = a
		}
		a[LastAppliedAnnotation] = "{\"x\":1}"
	}
	return o, u
}
