package verifsim

import (
	"encoding/json"
	"fmt"
	"os"
)

const LastAppliedAnnotation = "metacontroller.k8s.io/last-applied-configuration"

// CanonObj returns a deep copy of a Kubernetes object in the form the Lean model reads:
// the last-applied annotation (a JSON text) is replaced by the JSON value it encodes when
// that value is an object ("null" decodes to {} exactly as GetLastApplied does); any other
// text is kept as a string.
func CanonObj(obj map[string]interface{}) map[string]interface{} {
	if obj == nil {
		return nil
	}
	c := DeepCopy(obj).(map[string]interface{})
	md, ok := c["metadata"].(map[string]interface{})
	if !ok {
		return c
	}
	ann, ok := md["annotations"].(map[string]interface{})
	if !ok {
		return c
	}
	s, ok := ann[LastAppliedAnnotation].(string)
	if !ok || s == "" {
		return c
	}
	var v interface{}
	if err := json.Unmarshal([]byte(s), &v); err != nil {
		return c
	}
	switch t := v.(type) {
	case map[string]interface{}:
		ann[LastAppliedAnnotation] = normNumbers(t)
	case nil:
		ann[LastAppliedAnnotation] = map[string]interface{}{}
	}
	return c
}

// normNumbers turns float64 values that are whole numbers into int64 (encoding/json decodes
// every number as float64; the k8s decoder and the model use integers).
func normNumbers(v interface{}) interface{} {
	switch t := v.(type) {
	case map[string]interface{}:
		for k, x := range t {
			t[k] = normNumbers(x)
		}
		return t
	case []interface{}:
		for i, x := range t {
			t[i] = normNumbers(x)
		}
		return t
	case float64:
		if t == float64(int64(t)) {
			return int64(t)
		}
		return t
	default:
		return v
	}
}

// MustJSON marshals v (compact, sorted keys).
func MustJSON(v interface{}) string {
	b, err := json.Marshal(v)
	if err != nil {
		panic(err)
	}
	return string(b)
}

// CaseRand derives the PRNG of one case from (seed, case number), so that a single case can be
// regenerated without running the ones before it.
func CaseRand(seed uint64, i int) *Rand {
	return NewRand(seed*1000003 + uint64(i)*7919 + 17)
}

// Only returns the case number requested by VERIF_ONLY, or -1.
func Only() int {
	return envInt("VERIF_ONLY", -1)
}

// Mine tells whether case i belongs to this process: VERIF_ONLY selects one case,
// VERIF_SHARD=k/n every n-th case starting at k.
func Mine(i int) bool {
	if o := Only(); o >= 0 {
		return i == o
	}
	sh := os.Getenv("VERIF_SHARD")
	if sh == "" {
		return true
	}
	var k, n int
	if _, err := fmt.Sscanf(sh, "%d/%d", &k, &n); err != nil || n <= 0 {
		return true
	}
	return i%n == k
}
