package verifsim

import (
	"encoding/json"
	"fmt"
	"io"
	"net/http"
	"net/http/httptest"
	"strings"
	"time"
)

// HookAnswer is what a scripted webhook returns.
type HookAnswer struct {
	Code    int
	Headers map[string]string
	Body    []byte
}

// HookServer is an in-process webhook endpoint; Handler is a pure function of the request.
type HookServer struct {
	Server  *httptest.Server
	Sim     *Sim
	Handler func(name string, req map[string]interface{}) HookAnswer
}

func NewHookServer(sim *Sim) *HookServer {
	h := &HookServer{Sim: sim}
	h.Server = httptest.NewServer(http.HandlerFunc(h.serve))
	return h
}
func (h *HookServer) Close()                  { h.Server.Close() }
func (h *HookServer) URL(name string) *string { u := h.Server.URL + "/" + name; return &u }

func (h *HookServer) serve(w http.ResponseWriter, r *http.Request) {
	name := strings.Trim(r.URL.Path, "/")
	b, _ := io.ReadAll(r.Body)
	var req map[string]interface{}
	dec := json.NewDecoder(strings.NewReader(string(b)))
	dec.UseNumber()
	_ = dec.Decode(&req)
	if req != nil {
		req = fixNumbers(req).(map[string]interface{})
	}
	ans := h.Handler(name, req)
	e := LogEntry{Hook: name, Code: ans.Code, HookRaw: string(ans.Body)}
	if ra, ok := ans.Headers["Retry-After"]; ok {
		fmt.Sscanf(ra, "%d", &e.HookRetryAfter)
	}
	if req != nil {
		// the controller object is configuration, not behaviour: keep only its name
		slim := map[string]interface{}{}
		for k, v := range req {
			if k == "controller" {
				continue
			}
			slim[k] = v
		}
		e.HookReq = canonDeep(slim)
	}
	var resp interface{}
	d2 := json.NewDecoder(strings.NewReader(string(ans.Body)))
	d2.UseNumber()
	if err := d2.Decode(&resp); err == nil {
		e.HookResp = canonResp(fixNumbers(resp))
	}
	if h.Sim != nil {
		h.Sim.AppendHook(e)
	}
	for k, v := range ans.Headers {
		w.Header().Set(k, v)
	}
	w.WriteHeader(ans.Code)
	w.Write(ans.Body)
}

// canonResp: objects listed in a hook answer (children / attachments) are read by the model in the same canonical form
// as every other object (a last-applied annotation copied from an observed object is decoded).
func canonResp(v interface{}) interface{} {
	m, ok := v.(map[string]interface{})
	if !ok {
		return v
	}
	for _, k := range []string{"children", "attachments"} {
		if list, ok := m[k].([]interface{}); ok {
			for i, o := range list {
				if om, ok := o.(map[string]interface{}); ok {
					list[i] = CanonObj(om)
				}
			}
		}
	}
	return m
}

// canonDeep applies CanonObj to every Kubernetes object nested in a hook request
// (parent, children.*.*, related.*.*, attachments.*.*, object).
func canonDeep(req map[string]interface{}) map[string]interface{} {
	out := map[string]interface{}{}
	for k, v := range req {
		switch k {
		case "parent", "object":
			if m, ok := v.(map[string]interface{}); ok {
				out[k] = CanonObj(m)
				continue
			}
			out[k] = v
		case "children", "related", "attachments":
			groups, ok := v.(map[string]interface{})
			if !ok {
				out[k] = v
				continue
			}
			og := map[string]interface{}{}
			for gk, gv := range groups {
				objs, ok := gv.(map[string]interface{})
				if !ok {
					og[gk] = gv
					continue
				}
				oo := map[string]interface{}{}
				for name, o := range objs {
					if m, ok := o.(map[string]interface{}); ok {
						oo[name] = CanonObj(m)
					} else {
						oo[name] = o
					}
				}
				og[gk] = oo
			}
			out[k] = og
		default:
			out[k] = v
		}
	}
	return out
}

// RecQueue is a recording work queue (implements workqueue.TypedRateLimitingInterface[any]).
type RecQueue struct {
	Pending []interface{}
	Ops     []map[string]interface{}
	// failures in a row per item, as the rate limiter of the real queue counts them (kept across Reset)
	Requeues map[interface{}]int
}

func (q *RecQueue) rec(op string, item interface{}, extra ...interface{}) {
	m := map[string]interface{}{"op": op, "key": item}
	if len(extra) > 0 {
		m["arg"] = extra[0]
	}
	q.Ops = append(q.Ops, m)
}
func (q *RecQueue) Add(item interface{}) { q.rec("add", item); q.Pending = append(q.Pending, item) }
func (q *RecQueue) Len() int             { return len(q.Pending) }
func (q *RecQueue) Get() (interface{}, bool) {
	if len(q.Pending) == 0 {
		return nil, true
	}
	it := q.Pending[0]
	q.Pending = q.Pending[1:]
	return it, false
}
func (q *RecQueue) Done(item interface{}) { q.rec("done", item) }
func (q *RecQueue) ShutDown()             {}
func (q *RecQueue) ShutDownWithDrain()    {}
func (q *RecQueue) ShuttingDown() bool    { return false }
func (q *RecQueue) AddRateLimited(item interface{}) {
	q.rec("addRateLimited", item)
	if q.Requeues == nil {
		q.Requeues = map[interface{}]int{}
	}
	q.Requeues[item]++
}
func (q *RecQueue) Forget(item interface{}) {
	q.rec("forget", item)
	delete(q.Requeues, item)
}
func (q *RecQueue) AddAfter(item interface{}, d time.Duration) {
	q.rec("addAfter", item, int64(d/time.Millisecond))
}
func (q *RecQueue) NumRequeues(item interface{}) int { return q.Requeues[item] }
func (q *RecQueue) Reset()                           { q.Pending, q.Ops = nil, nil }
