package verifsim

import (
	"github.com/go-logr/logr/funcr"

	"metacontroller/pkg/logging"
)

// Every harness process runs metacontroller at a high log verbosity with the output discarded, so that code guarded by
// `logging.Logger.V(n).Enabled()` (diff logging before an update, request/response dumps of the webhook client) is
// executed: it must not change what is sent. VERIF_LOGV=0 restores the default (disabled) logger.
func init() {
	v := envInt("VERIF_LOGV", 10)
	if v <= 0 {
		return
	}
	logging.Logger = funcr.New(func(prefix, args string) {}, funcr.Options{Verbosity: v})
}
