package verifsim

// Simulated Kubernetes API server: speaks the REST dialect the *real* dynamic client and the
// *real* generated ControllerRevision clientset need. Every request is logged with the pre- and
// post-state of its target; faults can be injected by request identity; outside writers act
// through Env callbacks placed before a given request.

import (
	"encoding/json"
	"fmt"
	"io"
	"net/http"
	"net/http/httptest"
	"reflect"
	"sort"
	"strconv"
	"strings"
	"sync"

	"github.com/cespare/xxhash/v2"
)

type ResourceDef struct {
	Group, Version, Resource, Kind string
	Namespaced, HasStatus          bool
}

func (r ResourceDef) APIVersion() string {
	if r.Group == "" {
		return r.Version
	}
	return r.Group + "/" + r.Version
}

type Key struct{ Group, Resource, Namespace, Name string }

func (k Key) String() string { return k.Group + "/" + k.Resource + "/" + k.Namespace + "/" + k.Name }

// LogEntry is one request as seen by the server.
type LogEntry struct {
	I        int                    `json:"i"`
	Verb     string                 `json:"verb"` // get create update updateStatus delete patchRemove apply list watch
	Group    string                 `json:"group"`
	Resource string                 `json:"resource"`
	NS       string                 `json:"ns"`
	Name     string                 `json:"name"`
	Opts     map[string]interface{} `json:"opts,omitempty"`
	Body     map[string]interface{} `json:"body,omitempty"`
	Code     int                    `json:"code"`
	Reason   string                 `json:"reason,omitempty"`
	Resp     map[string]interface{} `json:"resp,omitempty"`
	Pre      map[string]interface{} `json:"pre"`
	Post     map[string]interface{} `json:"post"`
	Injected bool                   `json:"injected,omitempty"`
	BodyHash string                 `json:"bodyHash,omitempty"` // xxhash64 of the raw apply-patch body
	// what this field manager applied to the target before (apply only): input of the Lean API model's cross-check
	LastApplied map[string]interface{} `json:"lastApplied,omitempty"`
	// hook calls (Verb == "hook") share the log so that the global order is recorded
	Hook           string                 `json:"hook,omitempty"`
	HookReq        map[string]interface{} `json:"hookReq,omitempty"`
	HookResp       interface{}            `json:"hookResp,omitempty"`
	HookRaw        string                 `json:"hookRaw,omitempty"`
	HookRetryAfter int                    `json:"hookRetryAfter,omitempty"`
}

// Fault makes the nth (1-based) request matching (Verb, Resource, Name) fail. Empty fields match all.
type Fault struct {
	Verb, Resource, Name string
	Nth                  int
	Always               bool // every matching request fails (a persistent fault), not only the Nth
	Code                 int
	Reason               string
	seen                 int
}

// EnvTrigger runs F once, just before the first request matching (Verb, Resource, Name).
type EnvTrigger struct {
	Verb, Resource, Name string
	F                    func(s *Sim)
	done                 bool
}

type Sim struct {
	mu      sync.Mutex
	defs    []ResourceDef
	objs    map[Key]map[string]interface{}
	applied map[string]map[string]interface{} // manager+key -> last applied body (SSA)
	rv      int
	uid     int
	clock   int
	Log     []LogEntry
	Faults  []*Fault
	Env     map[int]func(s *Sim) // run just before request number i (0-based, writes and reads alike)
	// EnvBefore: outside writers that act just before the first request with a given identity (e.g. between the GET and
	// the PUT of a read-modify-write of one object); empty fields match anything
	EnvBefore []*EnvTrigger
	Server    *httptest.Server
	watchers  map[string][]chan watchEvent
	Quiet     bool // do not log list/watch
	// FaultAt makes the request with this index (0-based, within the current log) fail.
	FaultAt map[int][2]string // index -> (code, reason)
	// CutAfter >= 0: every request with index >= CutAfter fails with 503 and changes nothing (a crash seen from the store)
	CutAfter int
}

func NewSim(defs []ResourceDef) *Sim {
	s := &Sim{defs: defs, objs: map[Key]map[string]interface{}{}, applied: map[string]map[string]interface{}{},
		rv: 100, Env: map[int]func(*Sim){}, watchers: map[string][]chan watchEvent{}, CutAfter: -1}
	s.Server = httptest.NewServer(http.HandlerFunc(s.serve))
	return s
}

func (s *Sim) Close() { s.Server.Close() }

// Defs returns the resource definitions the simulator serves (written into every trace line: the Lean API model needs
// to know which resources are namespaced / have a status subresource).
func (s *Sim) Defs() []map[string]interface{} {
	out := make([]map[string]interface{}, 0, len(s.defs))
	for _, d := range s.defs {
		out = append(out, map[string]interface{}{"group": d.Group, "resource": d.Resource, "kind": d.Kind, "namespaced": d.Namespaced, "hasStatus": d.HasStatus})
	}
	return out
}
func (s *Sim) URL() string { return s.Server.URL }

func (s *Sim) def(group, resource string) *ResourceDef {
	for i := range s.defs {
		if s.defs[i].Group == group && s.defs[i].Resource == resource {
			return &s.defs[i]
		}
	}
	return nil
}

func (s *Sim) DefByKind(group, kind string) *ResourceDef {
	for i := range s.defs {
		if s.defs[i].Group == group && s.defs[i].Kind == kind {
			return &s.defs[i]
		}
	}
	return nil
}

func (s *Sim) nextRV() string  { s.rv++; return strconv.Itoa(s.rv) }
func (s *Sim) nextUID() string { s.uid++; return fmt.Sprintf("uid-%d", s.uid) }
func (s *Sim) now() string {
	s.clock++
	return fmt.Sprintf("2024-01-01T%02d:%02d:%02dZ", (s.clock/3600)%24, (s.clock/60)%60, s.clock%60)
}

func meta(o map[string]interface{}) map[string]interface{} {
	m, ok := o["metadata"].(map[string]interface{})
	if !ok {
		m = map[string]interface{}{}
		o["metadata"] = m
	}
	return m
}
func mstr(o map[string]interface{}, k string) string {
	// read-only: must not turn a null / missing metadata of a request body into {}
	m, _ := o["metadata"].(map[string]interface{})
	s, _ := m[k].(string)
	return s
}

// --- direct (non-HTTP) access for the harness and for environment actions -------------------

// Put stores an object as is (assigning uid / resourceVersion / generation when missing).
func (s *Sim) Put(group, resource string, obj map[string]interface{}) map[string]interface{} {
	o := DeepCopy(obj).(map[string]interface{})
	m := meta(o)
	if _, ok := m["uid"]; !ok {
		m["uid"] = s.nextUID()
	}
	m["resourceVersion"] = s.nextRV()
	if _, ok := m["generation"]; !ok {
		m["generation"] = int64(1)
	}
	if _, ok := m["creationTimestamp"]; !ok {
		m["creationTimestamp"] = s.now()
	}
	k := Key{group, resource, mstr(o, "namespace"), mstr(o, "name")}
	s.objs[k] = o
	return DeepCopy(o).(map[string]interface{})
}

func (s *Sim) GetObj(group, resource, ns, name string) map[string]interface{} {
	o := s.objs[Key{group, resource, ns, name}]
	if o == nil {
		return nil
	}
	return DeepCopy(o).(map[string]interface{})
}

func (s *Sim) Remove(group, resource, ns, name string) {
	delete(s.objs, Key{group, resource, ns, name})
}

// Mutate edits a stored object in place and bumps its resourceVersion (an outside writer).
func (s *Sim) Mutate(group, resource, ns, name string, f func(o map[string]interface{})) bool {
	o := s.objs[Key{group, resource, ns, name}]
	if o == nil {
		return false
	}
	f(o)
	meta(o)["resourceVersion"] = s.nextRV()
	return true
}

// Snapshot returns all objects (canonical form), sorted by key.
func (s *Sim) Snapshot() []map[string]interface{} {
	keys := make([]Key, 0, len(s.objs))
	for k := range s.objs {
		keys = append(keys, k)
	}
	sort.Slice(keys, func(i, j int) bool { return keys[i].String() < keys[j].String() })
	out := make([]map[string]interface{}, 0, len(keys))
	for _, k := range keys {
		out = append(out, CanonObj(s.objs[k]))
	}
	return out
}

func (s *Sim) List(group, resource string) []map[string]interface{} {
	var out []map[string]interface{}
	keys := make([]Key, 0)
	for k := range s.objs {
		if k.Group == group && k.Resource == resource {
			keys = append(keys, k)
		}
	}
	sort.Slice(keys, func(i, j int) bool { return keys[i].String() < keys[j].String() })
	for _, k := range keys {
		out = append(out, DeepCopy(s.objs[k]).(map[string]interface{}))
	}
	return out
}

func (s *Sim) ResetLog() { s.mu.Lock(); s.Log = nil; s.mu.Unlock() }

// AppendHook records a webhook call in the shared log.
func (s *Sim) AppendHook(e LogEntry) {
	s.mu.Lock()
	e.I = len(s.Log)
	e.Verb = "hook"
	s.Log = append(s.Log, e)
	s.mu.Unlock()
}

// LogCopy returns the log so far.
func (s *Sim) LogCopy() []LogEntry {
	s.mu.Lock()
	defer s.mu.Unlock()
	return append([]LogEntry(nil), s.Log...)
}

// --- HTTP -------------------------------------------------------------------------------------

type watchEvent struct {
	Type   string                 `json:"type"`
	Object map[string]interface{} `json:"object"`
}

func status(code int, reason, msg string) map[string]interface{} {
	return map[string]interface{}{"kind": "Status", "apiVersion": "v1", "metadata": map[string]interface{}{},
		"status": "Failure", "message": msg, "reason": reason, "code": code}
}

func writeJSON(w http.ResponseWriter, code int, v interface{}) {
	w.Header().Set("Content-Type", "application/json")
	w.WriteHeader(code)
	json.NewEncoder(w).Encode(v)
}

func controllerRefs(o map[string]interface{}) int {
	refs, _ := meta(o)["ownerReferences"].([]interface{})
	n := 0
	for _, r := range refs {
		if m, ok := r.(map[string]interface{}); ok {
			if c, ok := m["controller"].(bool); ok && c {
				n++
			}
		}
	}
	return n
}

func finalizers(o map[string]interface{}) []interface{} {
	f, _ := meta(o)["finalizers"].([]interface{})
	return f
}

// specPart is everything except metadata and status (a change there bumps generation).
func specPart(o map[string]interface{}) map[string]interface{} {
	c := map[string]interface{}{}
	for k, v := range o {
		if k != "metadata" && k != "status" {
			c[k] = v
		}
	}
	return c
}

func decodeBytes(b []byte) (map[string]interface{}, error) {
	if len(b) == 0 {
		return nil, nil
	}
	var v map[string]interface{}
	dec := json.NewDecoder(strings.NewReader(string(b)))
	dec.UseNumber()
	if err := dec.Decode(&v); err != nil {
		return nil, err
	}
	return fixNumbers(v).(map[string]interface{}), nil
}

func fixNumbers(v interface{}) interface{} {
	switch t := v.(type) {
	case map[string]interface{}:
		for k, x := range t {
			t[k] = fixNumbers(x)
		}
		return t
	case []interface{}:
		for i, x := range t {
			t[i] = fixNumbers(x)
		}
		return t
	case json.Number:
		if i, err := t.Int64(); err == nil {
			return i
		}
		f, _ := t.Float64()
		return f
	default:
		return v
	}
}

// dropNullTimestamps removes `creationTimestamp: null` that typed clients always send.
func dropNullTimestamps(o map[string]interface{}) {
	if m, ok := o["metadata"].(map[string]interface{}); ok {
		if v, present := m["creationTimestamp"]; present && v == nil {
			delete(m, "creationTimestamp")
		}
	}
}

type parsedPath struct {
	group, version, resource, ns, name, sub string
	ok                                      bool
}

func parsePath(p string) parsedPath {
	parts := strings.Split(strings.Trim(p, "/"), "/")
	var pp parsedPath
	var rest []string
	switch {
	case len(parts) >= 2 && parts[0] == "api":
		pp.group, pp.version, rest = "", parts[1], parts[2:]
	case len(parts) >= 3 && parts[0] == "apis":
		pp.group, pp.version, rest = parts[1], parts[2], parts[3:]
	default:
		return pp
	}
	if len(rest) >= 2 && rest[0] == "namespaces" && len(rest) >= 3 {
		pp.ns = rest[1]
		rest = rest[2:]
	}
	if len(rest) == 0 {
		return pp
	}
	pp.resource = rest[0]
	if len(rest) > 1 {
		pp.name = rest[1]
	}
	if len(rest) > 2 {
		pp.sub = rest[2]
	}
	pp.ok = true
	return pp
}

func (s *Sim) serve(w http.ResponseWriter, r *http.Request) {
	if r.URL.Path == "/api" || r.URL.Path == "/apis" || strings.Count(strings.Trim(r.URL.Path, "/"), "/") < 2 && !strings.HasPrefix(r.URL.Path, "/api/v1/") {
		if s.serveDiscovery(w, r) {
			return
		}
	}
	pp := parsePath(r.URL.Path)
	if !pp.ok {
		if s.serveDiscovery(w, r) {
			return
		}
		writeJSON(w, 404, status(404, "NotFound", "unknown path "+r.URL.Path))
		return
	}
	def := s.def(pp.group, pp.resource)
	if def == nil {
		writeJSON(w, 404, status(404, "NotFound", "unknown resource "+pp.resource))
		return
	}
	q := r.URL.Query()
	if r.Method == "GET" && pp.name == "" {
		if q.Get("watch") == "true" || q.Get("watch") == "1" {
			s.serveWatch(w, r, def, pp)
		} else {
			s.serveList(w, r, def, pp)
		}
		return
	}
	var body map[string]interface{}
	var err error
	rawPatch := ""
	if r.Method == "PATCH" && !strings.Contains(r.Header.Get("Content-Type"), "apply-patch") {
		b, _ := io.ReadAll(r.Body)
		rawPatch = string(b)
	} else {
		raw, _ := io.ReadAll(r.Body)
		if r.Method == "PATCH" {
			rawPatch = strconv.FormatUint(xxhash.Sum64(raw), 10)
		}
		body, err = decodeBytes(raw)
	}
	if err != nil {
		writeJSON(w, 400, status(400, "BadRequest", err.Error()))
		return
	}
	if body != nil {
		dropNullTimestamps(body)
	}

	s.mu.Lock()
	defer s.mu.Unlock()

	verb := ""
	switch r.Method {
	case "GET":
		verb = "get"
	case "POST":
		verb = "create"
	case "PUT":
		if pp.sub == "status" {
			verb = "updateStatus"
		} else {
			verb = "update"
		}
	case "DELETE":
		verb = "delete"
	case "PATCH":
		if strings.Contains(r.Header.Get("Content-Type"), "apply-patch") {
			verb = "apply"
		} else {
			verb = "patchRemove"
		}
	}
	name := pp.name
	if verb == "create" && body != nil {
		name = mstr(body, "name")
	}
	idx := len(s.Log)
	if f := s.Env[idx]; f != nil {
		delete(s.Env, idx)
		f(s)
	}
	for _, t := range s.EnvBefore {
		if !t.done && (t.Verb == "" || t.Verb == verb) && (t.Resource == "" || t.Resource == pp.resource) && (t.Name == "" || t.Name == name) {
			t.done = true
			t.F(s)
		}
	}
	key := Key{pp.group, pp.resource, pp.ns, name}
	e := LogEntry{I: idx, Verb: verb, Group: pp.group, Resource: pp.resource, NS: pp.ns, Name: name}
	if cur := s.objs[key]; cur != nil {
		e.Pre = CanonObj(cur)
	}
	if verb == "delete" {
		if body != nil {
			e.Opts = map[string]interface{}{}
			for k, v := range body {
				if k != "apiVersion" && k != "kind" {
					e.Opts[k] = v
				}
			}
		}
	} else if body != nil {
		e.Body = CanonObj(body)
	}
	if verb == "apply" {
		e.Opts = map[string]interface{}{"fieldManager": q.Get("fieldManager"), "force": q.Get("force")}
		e.BodyHash = rawPatch
		if la := s.applied[q.Get("fieldManager")+"|"+key.String()]; la != nil {
			e.LastApplied = DeepCopy(la).(map[string]interface{})
		}
	}
	if verb == "patchRemove" {
		e.Opts = map[string]interface{}{"patchType": r.Header.Get("Content-Type"), "patch": rawPatch}
	}

	code, reason, resp := 0, "", map[string]interface{}(nil)
	if s.CutAfter >= 0 && idx >= s.CutAfter {
		code, reason = 503, "ServiceUnavailable"
		e.Injected = true
	}
	if f, ok := s.FaultAt[idx]; ok && code == 0 {
		fmt.Sscanf(f[0], "%d", &code)
		reason = f[1]
		// a read cannot be answered Conflict / AlreadyExists / Invalid by an API server: inject a server error instead
		if verb == "get" && (reason == "Conflict" || reason == "AlreadyExists" || reason == "Invalid") {
			code, reason = 500, "InternalError"
		}
		e.Injected = true
	}
	// fault injection
	for _, f := range s.Faults {
		if code != 0 {
			break
		}
		isWrite := verb == "create" || verb == "update" || verb == "updateStatus" || verb == "delete" || verb == "apply" || verb == "patchRemove"
		if (f.Verb == "" || f.Verb == verb || (f.Verb == "write" && isWrite)) && (f.Resource == "" || f.Resource == pp.resource) && (f.Name == "" || f.Name == name) {
			f.seen++
			if f.Always || f.seen == f.Nth {
				code, reason = f.Code, f.Reason
				if code == 409 && reason == "" {
					// the 409 a server would give for this verb
					reason = "Conflict"
					if verb == "create" {
						reason = "AlreadyExists"
					}
				}
				e.Injected = true
				break
			}
		}
	}
	if code == 0 {
		code, reason, resp = s.handle(verb, def, key, body, q.Get("fieldManager"))
	}
	e.Code, e.Reason = code, reason
	if cur := s.objs[key]; cur != nil {
		e.Post = CanonObj(cur)
	}
	if resp != nil {
		e.Resp = CanonObj(resp)
	}
	s.Log = append(s.Log, e)
	if code >= 400 {
		writeJSON(w, code, status(code, reason, fmt.Sprintf("%s %s %q: %s", verb, pp.resource, name, reason)))
		return
	}
	writeJSON(w, code, resp)
}

func (s *Sim) notify(def *ResourceDef, typ string, o map[string]interface{}) {
	k := def.Group + "/" + def.Resource
	for _, ch := range s.watchers[k] {
		select {
		case ch <- watchEvent{typ, DeepCopy(o).(map[string]interface{})}:
		default:
		}
	}
}

// handle applies one verb to the store. Caller holds the lock.
func (s *Sim) handle(verb string, def *ResourceDef, key Key, body map[string]interface{}, manager string) (int, string, map[string]interface{}) {
	cur := s.objs[key]
	switch verb {
	case "get":
		if cur == nil {
			return 404, "NotFound", nil
		}
		return 200, "", DeepCopy(cur).(map[string]interface{})
	case "create":
		if body == nil || key.Name == "" {
			return 422, "Invalid", nil
		}
		if cur != nil {
			return 409, "AlreadyExists", nil
		}
		if controllerRefs(body) > 1 {
			return 422, "Invalid", nil
		}
		o := DeepCopy(body).(map[string]interface{})
		m := meta(o)
		if def.Namespaced {
			m["namespace"] = key.Namespace
		}
		m["uid"] = s.nextUID()
		m["resourceVersion"] = s.nextRV()
		m["generation"] = int64(1)
		m["creationTimestamp"] = s.now()
		delete(m, "deletionTimestamp")
		if def.HasStatus {
			delete(o, "status")
		}
		s.objs[key] = o
		s.notify(def, "ADDED", o)
		return 201, "", DeepCopy(o).(map[string]interface{})
	case "update", "updateStatus":
		if cur == nil {
			return 404, "NotFound", nil
		}
		if body == nil {
			return 422, "Invalid", nil
		}
		if u := mstr(body, "uid"); u != "" && u != mstr(cur, "uid") {
			return 409, "Conflict", nil
		}
		rv := mstr(body, "resourceVersion")
		if rv == "" {
			return 422, "Invalid", nil
		}
		if rv != mstr(cur, "resourceVersion") {
			return 409, "Conflict", nil
		}
		var o map[string]interface{}
		if verb == "updateStatus" {
			o = DeepCopy(cur).(map[string]interface{})
			if st, ok := body["status"]; ok {
				o["status"] = DeepCopy(st)
			} else {
				delete(o, "status")
			}
		} else {
			if controllerRefs(body) > 1 {
				return 422, "Invalid", nil
			}
			// no new finalizers may be added to an object that is being deleted
			if mstr(cur, "deletionTimestamp") != "" {
				old := map[interface{}]bool{}
				for _, f := range finalizers(cur) {
					old[f] = true
				}
				for _, f := range finalizers(body) {
					if !old[f] {
						return 422, "Invalid", nil
					}
				}
			}
			o = DeepCopy(body).(map[string]interface{})
			m, cm := meta(o), meta(cur)
			for _, f := range []string{"uid", "creationTimestamp", "generation", "deletionTimestamp", "deletionGracePeriodSeconds", "namespace", "name", "selfLink"} {
				if v, ok := cm[f]; ok {
					m[f] = v
				} else {
					delete(m, f)
				}
			}
			if def.HasStatus {
				if st, ok := cur["status"]; ok {
					o["status"] = DeepCopy(st)
				} else {
					delete(o, "status")
				}
			}
			if !reflect.DeepEqual(specPart(o), specPart(cur)) {
				g, _ := cm["generation"].(int64)
				m["generation"] = g + 1
			}
		}
		meta(o)["resourceVersion"] = mstr(cur, "resourceVersion")
		if reflect.DeepEqual(o, cur) {
			return 200, "", DeepCopy(cur).(map[string]interface{}) // no-op write keeps the version
		}
		if mstr(o, "deletionTimestamp") != "" && len(finalizers(o)) == 0 {
			delete(s.objs, key)
			s.notify(def, "DELETED", o)
			return 200, "", DeepCopy(o).(map[string]interface{})
		}
		meta(o)["resourceVersion"] = s.nextRV()
		s.objs[key] = o
		s.notify(def, "MODIFIED", o)
		return 200, "", DeepCopy(o).(map[string]interface{})
	case "delete":
		if cur == nil {
			return 404, "NotFound", nil
		}
		if body != nil {
			if pre, ok := body["preconditions"].(map[string]interface{}); ok {
				if u, ok := pre["uid"].(string); ok && u != "" && u != mstr(cur, "uid") {
					return 409, "Conflict", nil
				}
				if v, ok := pre["resourceVersion"].(string); ok && v != "" && v != mstr(cur, "resourceVersion") {
					return 409, "Conflict", nil
				}
			}
		}
		if len(finalizers(cur)) > 0 {
			if mstr(cur, "deletionTimestamp") == "" {
				meta(cur)["deletionTimestamp"] = s.now()
				meta(cur)["resourceVersion"] = s.nextRV()
				s.notify(def, "MODIFIED", cur)
			}
			return 200, "", DeepCopy(cur).(map[string]interface{})
		}
		delete(s.objs, key)
		s.notify(def, "DELETED", cur)
		return 200, "", status(200, "", "deleted")
	case "patchRemove":
		// the only JSON patch metacontroller sends: remove the last-applied annotation
		if cur == nil {
			return 404, "NotFound", nil
		}
		ann, _ := meta(cur)["annotations"].(map[string]interface{})
		if _, ok := ann[LastAppliedAnnotation]; !ok {
			return 422, "Invalid", nil
		}
		delete(ann, LastAppliedAnnotation)
		meta(cur)["resourceVersion"] = s.nextRV()
		s.notify(def, "MODIFIED", cur)
		return 200, "", DeepCopy(cur).(map[string]interface{})
	case "apply":
		if body == nil {
			return 422, "Invalid", nil
		}
		mk := manager + "|" + key.String()
		if cur == nil {
			o := DeepCopy(body).(map[string]interface{})
			m := meta(o)
			if def.Namespaced {
				m["namespace"] = key.Namespace
			}
			m["name"] = key.Name
			m["uid"] = s.nextUID()
			m["resourceVersion"] = s.nextRV()
			m["generation"] = int64(1)
			m["creationTimestamp"] = s.now()
			if def.HasStatus {
				delete(o, "status")
			}
			s.objs[key] = o
			s.applied[mk] = DeepCopy(body).(map[string]interface{})
			s.notify(def, "ADDED", o)
			return 201, "", DeepCopy(o).(map[string]interface{})
		}
		o := DeepCopy(cur).(map[string]interface{})
		ssaMerge(o, s.applied[mk], body)
		m, cm := meta(o), meta(cur)
		for _, f := range []string{"uid", "creationTimestamp", "generation", "deletionTimestamp", "namespace", "name", "resourceVersion"} {
			if v, ok := cm[f]; ok {
				m[f] = v
			} else {
				delete(m, f)
			}
		}
		if def.HasStatus {
			if st, ok := cur["status"]; ok {
				o["status"] = DeepCopy(st)
			} else {
				delete(o, "status")
			}
		}
		s.applied[mk] = DeepCopy(body).(map[string]interface{})
		if reflect.DeepEqual(o, cur) {
			return 200, "", DeepCopy(cur).(map[string]interface{})
		}
		if !reflect.DeepEqual(specPart(o), specPart(cur)) {
			g, _ := cm["generation"].(int64)
			m["generation"] = g + 1
		}
		m["resourceVersion"] = s.nextRV()
		s.objs[key] = o
		s.notify(def, "MODIFIED", o)
		return 200, "", DeepCopy(o).(map[string]interface{})
	}
	return 405, "MethodNotAllowed", nil
}

// ssaMerge: simplified server-side apply with force: fields of `last` that `now` dropped are removed,
// fields of `now` are set (maps recursively, everything else replaced).
func ssaMerge(dst, last, now map[string]interface{}) {
	for k := range last {
		if _, ok := now[k]; !ok {
			delete(dst, k)
		}
	}
	for k, v := range now {
		nm, isMap := v.(map[string]interface{})
		dm, dstMap := dst[k].(map[string]interface{})
		if isMap && dstMap {
			lm, _ := last[k].(map[string]interface{})
			ssaMerge(dm, lm, nm)
		} else {
			dst[k] = DeepCopy(v)
		}
	}
}

func (s *Sim) serveList(w http.ResponseWriter, r *http.Request, def *ResourceDef, pp parsedPath) {
	s.mu.Lock()
	items := []interface{}{}
	for _, o := range s.List(def.Group, def.Resource) {
		if pp.ns == "" || mstr(o, "namespace") == pp.ns {
			items = append(items, o)
		}
	}
	rv := strconv.Itoa(s.rv)
	if !s.Quiet {
		s.Log = append(s.Log, LogEntry{I: len(s.Log), Verb: "list", Group: def.Group, Resource: def.Resource, NS: pp.ns, Code: 200})
	}
	s.mu.Unlock()
	writeJSON(w, 200, map[string]interface{}{"kind": def.Kind + "List", "apiVersion": def.APIVersion(),
		"metadata": map[string]interface{}{"resourceVersion": rv}, "items": items})
}

func (s *Sim) serveWatch(w http.ResponseWriter, r *http.Request, def *ResourceDef, pp parsedPath) {
	ch := make(chan watchEvent, 1024)
	k := def.Group + "/" + def.Resource
	s.mu.Lock()
	s.watchers[k] = append(s.watchers[k], ch)
	if !s.Quiet {
		s.Log = append(s.Log, LogEntry{I: len(s.Log), Verb: "watch", Group: def.Group, Resource: def.Resource, NS: pp.ns, Code: 200})
	}
	s.mu.Unlock()
	defer func() {
		s.mu.Lock()
		ws := s.watchers[k]
		for i, c := range ws {
			if c == ch {
				s.watchers[k] = append(ws[:i:i], ws[i+1:]...)
				break
			}
		}
		s.Log = append(s.Log, LogEntry{I: len(s.Log), Verb: "watch-closed", Group: def.Group, Resource: def.Resource, Code: 200})
		s.mu.Unlock()
	}()
	w.Header().Set("Content-Type", "application/json")
	w.WriteHeader(200)
	fl, _ := w.(http.Flusher)
	if fl != nil {
		fl.Flush()
	}
	enc := json.NewEncoder(w)
	for {
		select {
		case <-r.Context().Done():
			return
		case ev := <-ch:
			if pp.ns != "" && mstr(ev.Object, "namespace") != pp.ns {
				continue
			}
			if err := enc.Encode(ev); err != nil {
				return
			}
			if fl != nil {
				fl.Flush()
			}
		}
	}
}

// serveDiscovery answers /api, /apis, /api/v1, /apis/<g>/<v>.
func (s *Sim) serveDiscovery(w http.ResponseWriter, r *http.Request) bool {
	p := strings.Trim(r.URL.Path, "/")
	switch {
	case p == "api":
		writeJSON(w, 200, map[string]interface{}{"kind": "APIVersions", "versions": []string{"v1"}})
		return true
	case p == "apis":
		groups := map[string]map[string]bool{}
		for _, d := range s.defs {
			if d.Group == "" {
				continue
			}
			if groups[d.Group] == nil {
				groups[d.Group] = map[string]bool{}
			}
			groups[d.Group][d.Version] = true
		}
		var gl []interface{}
		for g, vs := range groups {
			var versions []interface{}
			for v := range vs {
				versions = append(versions, map[string]interface{}{"groupVersion": g + "/" + v, "version": v})
			}
			gl = append(gl, map[string]interface{}{"name": g, "versions": versions, "preferredVersion": versions[0]})
		}
		writeJSON(w, 200, map[string]interface{}{"kind": "APIGroupList", "apiVersion": "v1", "groups": gl})
		return true
	}
	parts := strings.Split(p, "/")
	group, version := "", ""
	if len(parts) == 2 && parts[0] == "api" {
		version = parts[1]
	} else if len(parts) == 3 && parts[0] == "apis" {
		group, version = parts[1], parts[2]
	} else {
		return false
	}
	var rs []interface{}
	for _, d := range s.defs {
		if d.Group == group && d.Version == version {
			rs = append(rs, map[string]interface{}{"name": d.Resource, "singularName": "", "namespaced": d.Namespaced, "kind": d.Kind,
				"verbs": []string{"get", "list", "watch", "create", "update", "patch", "delete"}})
			if d.HasStatus {
				rs = append(rs, map[string]interface{}{"name": d.Resource + "/status", "singularName": "", "namespaced": d.Namespaced, "kind": d.Kind,
					"verbs": []string{"get", "update", "patch"}})
			}
		}
	}
	gv := version
	if group != "" {
		gv = group + "/" + version
	}
	writeJSON(w, 200, map[string]interface{}{"kind": "APIResourceList", "apiVersion": "v1", "groupVersion": gv, "resources": rs})
	return true
}
