// Package verifsim holds the helpers shared by the verification harness:
// PRNG, JSON generators, trace writer, canonicalisation and the simulated API server.
// It is injected into the metacontroller module with `go test -overlay`; nothing here
// is part of /repo.
package verifsim

import (
	"bufio"
	"encoding/json"
	"fmt"
	"os"
	"sort"
	"strconv"
)

// Rand is splitmix64: every random choice of a run derives from VERIF_SEED.
type Rand struct{ s uint64 }

func NewRand(seed uint64) *Rand { return &Rand{s: seed*0x9E3779B97F4A7C15 + 0x1234567} }

func (r *Rand) Next() uint64 {
	r.s += 0x9E3779B97F4A7C15
	z := r.s
	z = (z ^ (z >> 30)) * 0xBF58476D1CE4E5B9
	z = (z ^ (z >> 27)) * 0x94D049BB133111EB
	return z ^ (z >> 31)
}
func (r *Rand) Intn(n int) int {
	if n <= 0 {
		return 0
	}
	return int(r.Next() % uint64(n))
}
func (r *Rand) Bool() bool              { return r.Next()&1 == 1 }
func (r *Rand) Chance(p int) bool       { return r.Intn(100) < p }
func (r *Rand) Pick(xs []string) string { return xs[r.Intn(len(xs))] }

// Params reads VERIF_SEED / VERIF_N (defaults 1 / def).
func Params(def int) (seed uint64, n int) {
	seed = 1
	if s := os.Getenv("VERIF_SEED"); s != "" {
		if v, err := strconv.ParseUint(s, 10, 64); err == nil {
			seed = v
		}
	}
	n = def
	if s := os.Getenv("VERIF_N"); s != "" {
		if v, err := strconv.Atoi(s); err == nil {
			n = v
		}
	}
	return
}

func envInt(name string, def int) int {
	if s := os.Getenv(name); s != "" {
		if v, err := strconv.Atoi(s); err == nil {
			return v
		}
	}
	return def
}

// Out writes one JSON object per line to VERIF_OUT (or stdout).
type Out struct {
	f *os.File
	w *bufio.Writer
}

func OpenOut() *Out {
	p := os.Getenv("VERIF_OUT")
	if p == "" {
		return &Out{f: nil, w: bufio.NewWriter(os.Stdout)}
	}
	f, err := os.Create(p)
	if err != nil {
		panic(err)
	}
	return &Out{f: f, w: bufio.NewWriterSize(f, 1<<20)}
}
func (o *Out) Line(v interface{}) {
	b, err := json.Marshal(v)
	if err != nil {
		panic(fmt.Sprintf("verifsim: cannot marshal trace line: %v", err))
	}
	o.w.Write(b)
	o.w.WriteByte('\n')
}
func (o *Out) Close() {
	o.w.Flush()
	if o.f != nil {
		o.f.Close()
	}
}

// M is shorthand for a JSON object.
type M = map[string]interface{}

// ---------------------------------------------------------------------------
// JSON tree generator for the merge properties (C05).

var plainKeys = []string{"a", "b", "c", "image", "replicas"}
var mergeKeyNames = []string{"containerPort", "port", "mountPath", "name", "uid", "ip", "path"}
var strVals = []string{"x", "y", "z", "1", "true"}

type JGen struct {
	R        *Rand
	MaxDepth int
}

func (g *JGen) Scalar() interface{} {
	switch g.R.Intn(8) {
	case 0:
		return nil
	case 1:
		return g.R.Bool()
	case 2, 3:
		return int64(g.R.Intn(4))
	default:
		return g.R.Pick(strVals)
	}
}

func (g *JGen) key() string {
	if g.R.Chance(25) {
		return g.R.Pick(mergeKeyNames)
	}
	return g.R.Pick(plainKeys)
}

func (g *JGen) Object(depth int) M {
	m := M{}
	n := g.R.Intn(4)
	for i := 0; i < n; i++ {
		m[g.key()] = g.Value(depth + 1)
	}
	return m
}

// ListMap generates a list of objects sharing merge key mk; unique decides whether
// key values may repeat.
func (g *JGen) ListMap(depth int, unique bool) []interface{} {
	mk := g.R.Pick(mergeKeyNames)
	n := g.R.Intn(4)
	out := make([]interface{}, 0, n)
	used := map[string]bool{}
	for i := 0; i < n; i++ {
		var kv interface{}
		if g.R.Chance(70) {
			kv = g.R.Pick(strVals)
		} else {
			kv = int64(g.R.Intn(4))
		}
		ks := fmt.Sprintf("%v", kv)
		if unique && used[ks] {
			continue
		}
		used[ks] = true
		it := M{mk: kv}
		extra := g.R.Intn(3)
		for j := 0; j < extra; j++ {
			k := g.key()
			if k == mk {
				continue
			}
			if contains(mergeKeyNames, k) {
				// second conventional key: scalar value
				it[k] = g.Scalar()
				if it[k] == nil {
					it[k] = "x"
				}
			} else {
				it[k] = g.Value(depth + 1)
			}
		}
		out = append(out, it)
	}
	return out
}

func contains(xs []string, s string) bool {
	for _, x := range xs {
		if x == s {
			return true
		}
	}
	return false
}

func (g *JGen) Value(depth int) interface{} {
	if depth >= g.MaxDepth {
		return g.Scalar()
	}
	switch g.R.Intn(10) {
	case 0, 1, 2:
		return g.Object(depth)
	case 3:
		// plain list
		n := g.R.Intn(3)
		out := make([]interface{}, 0, n)
		for i := 0; i < n; i++ {
			out = append(out, g.Scalar())
		}
		return out
	case 4, 5:
		return g.ListMap(depth, true)
	default:
		return g.Scalar()
	}
}

// Mutate returns a changed deep copy of v: drops, edits and adds fields, changes
// scalar values, occasionally changes the JSON kind of a node.
func (g *JGen) Mutate(v interface{}, depth int) interface{} {
	switch t := v.(type) {
	case map[string]interface{}:
		if g.R.Chance(4) {
			return g.Scalar() // kind change
		}
		out := M{}
		for k, x := range t {
			switch {
			case g.R.Chance(15):
				// dropped
			case g.R.Chance(35):
				out[k] = g.Mutate(x, depth+1)
			default:
				out[k] = DeepCopy(x)
			}
		}
		if g.R.Chance(30) {
			out[g.key()] = g.Value(depth + 1)
		}
		return out
	case []interface{}:
		if g.R.Chance(4) {
			return g.Scalar()
		}
		out := make([]interface{}, 0, len(t)+1)
		for _, x := range t {
			switch {
			case g.R.Chance(15):
			case g.R.Chance(30):
				if m, ok := x.(map[string]interface{}); ok {
					// keep conventional keys, mutate the rest
					c := M{}
					for k, y := range m {
						if contains(mergeKeyNames, k) {
							c[k] = y
						} else if !g.R.Chance(20) {
							c[k] = g.Mutate(y, depth+2)
						}
					}
					if g.R.Chance(30) {
						c[g.R.Pick(plainKeys)] = g.Scalar()
					}
					out = append(out, c)
				} else {
					out = append(out, g.Scalar())
				}
			default:
				out = append(out, DeepCopy(x))
			}
		}
		if g.R.Chance(25) && len(t) > 0 {
			if m, ok := t[0].(map[string]interface{}); ok {
				// new item with the same conventional keys and fresh values
				c := M{}
				for k := range m {
					if contains(mergeKeyNames, k) {
						c[k] = g.R.Pick([]string{"n1", "n2", "n3"})
					}
				}
				c[g.R.Pick(plainKeys)] = g.Scalar()
				if g.R.Bool() {
					out = append(out, c)
				} else {
					out = append([]interface{}{c}, out...)
				}
			}
		}
		if g.R.Chance(10) {
			// reorder
			for i := len(out) - 1; i > 0; i-- {
				j := g.R.Intn(i + 1)
				out[i], out[j] = out[j], out[i]
			}
		}
		return out
	default:
		if g.R.Chance(50) {
			return g.Scalar()
		}
		if g.R.Chance(6) {
			return g.Object(depth)
		}
		return v
	}
}

// DeepCopy of a JSON tree.
func DeepCopy(v interface{}) interface{} {
	switch t := v.(type) {
	case map[string]interface{}:
		out := make(M, len(t))
		for k, x := range t {
			out[k] = DeepCopy(x)
		}
		return out
	case []interface{}:
		if t == nil {
			return t
		}
		out := make([]interface{}, len(t))
		for i, x := range t {
			out[i] = DeepCopy(x)
		}
		return out
	default:
		return v
	}
}

// Triple generates (observed, lastApplied, desired) objects that are related:
// desired is random, lastApplied a mutation of desired, observed a mutation of
// lastApplied with foreign additions.
func (g *JGen) Triple() (o, l, d M) {
	d = g.Object(0)
	if len(d) == 0 {
		d = M{"a": g.Value(1)}
	}
	lv := g.Mutate(d, 0)
	var ok bool
	if l, ok = lv.(map[string]interface{}); !ok {
		l = M{}
	}
	ov := g.Mutate(l, 0)
	if g.R.Chance(50) {
		ov = g.Mutate(ov, 0)
	}
	if o, ok = ov.(map[string]interface{}); !ok {
		o = M{}
	}
	// shape divergence of one side only: an item of some list loses its conventional keys or turns into a scalar while the
	// other two sides keep theirs (the merge-key detection looks at all three lists)
	if g.R.Chance(12) {
		l, _ = g.dekey(l).(map[string]interface{})
		if l == nil {
			l = M{}
		}
	}
	if g.R.Chance(5) {
		if x, ok := g.dekey(o).(map[string]interface{}); ok {
			o = x
		}
	}
	if g.R.Chance(5) {
		if x, ok := g.dekey(d).(map[string]interface{}); ok && len(x) > 0 {
			d = x
		}
	}
	if g.R.Chance(10) {
		l = nil
	}
	return
}

// dekey returns a copy of v in which one item of every list of objects (walked top-down, each with probability 1/2) lost its
// conventional merge keys or became a scalar.
func (g *JGen) dekey(v interface{}) interface{} {
	switch t := v.(type) {
	case map[string]interface{}:
		out := M{}
		keys := make([]string, 0, len(t))
		for k := range t {
			keys = append(keys, k)
		}
		sort.Strings(keys)
		for _, k := range keys {
			out[k] = g.dekey(t[k])
		}
		return out
	case []interface{}:
		out := make([]interface{}, len(t))
		for i, x := range t {
			out[i] = DeepCopy(x)
		}
		if len(out) > 0 && g.R.Bool() {
			i := g.R.Intn(len(out))
			if m, ok := out[i].(map[string]interface{}); ok && g.R.Chance(60) {
				c := M{}
				for k, y := range m {
					if !contains(mergeKeyNames, k) {
						c[k] = y
					}
				}
				out[i] = c
			} else {
				out[i] = g.Scalar()
			}
		}
		return out
	default:
		return v
	}
}
