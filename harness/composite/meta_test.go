package composite

// Hosted controllers follow their CompositeController objects: the real Metacontroller.Reconcile is driven
// through histories of create / update / no-op update / delete events; after each event the set of running
// instances, the shared informer factory's subscription counts, and which hook URLs get called are recorded.

import (
	"context"
	"fmt"
	"sort"
	"strings"
	"sync"
	"testing"
	"time"

	"github.com/go-logr/logr"
	apiextensionsv1 "k8s.io/apiextensions-apiserver/pkg/apis/apiextensions/v1"
	metav1 "k8s.io/apimachinery/pkg/apis/meta/v1"
	"k8s.io/apimachinery/pkg/apis/meta/v1/unstructured"
	"k8s.io/apimachinery/pkg/runtime"
	"k8s.io/apimachinery/pkg/types"
	"k8s.io/client-go/rest"
	"k8s.io/client-go/tools/record"
	"sigs.k8s.io/controller-runtime/pkg/client/fake"
	"sigs.k8s.io/controller-runtime/pkg/reconcile"

	"metacontroller/pkg/apis/metacontroller/v1alpha1"
	mcclientset "metacontroller/pkg/client/generated/clientset/internalclientset"
	mclisters "metacontroller/pkg/client/generated/lister/metacontroller/v1alpha1"
	"metacontroller/pkg/controller/common"
	dynamicclientset "metacontroller/pkg/dynamic/clientset"
	dynamicdiscovery "metacontroller/pkg/dynamic/discovery"
	dynamicinformer "metacontroller/pkg/dynamic/informer"
	vs "metacontroller/pkg/internal/verifsim"
)

var metaDefs = []vs.ResourceDef{
	{Group: parentGroup, Version: "v1", Resource: "things", Kind: "Thing", Namespaced: true, HasStatus: true},
	{Group: parentGroup, Version: "v1", Resource: "nostatuses", Kind: "NoStatus", Namespaced: true},
	{Group: "example.com", Version: "v1", Resource: "widgets", Kind: "Widget", Namespaced: true, HasStatus: true},
	{Group: "", Version: "v1", Resource: "configmaps", Kind: "ConfigMap", Namespaced: true},
	{Group: revGroup, Version: "v1alpha1", Resource: "controllerrevisions", Kind: "ControllerRevision", Namespaced: true},
}

func crd(resource, kind string, status bool) *apiextensionsv1.CustomResourceDefinition {
	v := apiextensionsv1.CustomResourceDefinitionVersion{Name: "v1", Served: true, Storage: true}
	if status {
		v.Subresources = &apiextensionsv1.CustomResourceSubresources{Status: &apiextensionsv1.CustomResourceSubresourceStatus{}}
	}
	return &apiextensionsv1.CustomResourceDefinition{
		ObjectMeta: metav1.ObjectMeta{Name: resource + "." + parentGroup},
		Spec: apiextensionsv1.CustomResourceDefinitionSpec{Group: parentGroup, Names: apiextensionsv1.CustomResourceDefinitionNames{Plural: resource, Kind: kind},
			Versions: []apiextensionsv1.CustomResourceDefinitionVersion{v}},
	}
}

// metaSpec builds a CompositeController spec of a given class; `ver` makes hook URLs (and thus the spec) unique.
func metaSpec(class string, name string, ver int, hookBase string) v1alpha1.CompositeControllerSpec {
	url := fmt.Sprintf("%s/sync-%s-%d", hookBase, name, ver)
	sp := v1alpha1.CompositeControllerSpec{
		ParentResource: v1alpha1.CompositeControllerParentResourceRule{ResourceRule: v1alpha1.ResourceRule{APIVersion: parentGroup + "/v1", Resource: "things"}},
		ChildResources: []v1alpha1.CompositeControllerChildResourceRule{{ResourceRule: v1alpha1.ResourceRule{APIVersion: "example.com/v1", Resource: "widgets"}}},
		Hooks:          &v1alpha1.CompositeControllerHooks{Sync: &v1alpha1.Hook{Webhook: &v1alpha1.Webhook{URL: &url}}},
	}
	switch class {
	case "ok":
	case "ok2": // another set of children
		sp.ChildResources = append(sp.ChildResources, v1alpha1.CompositeControllerChildResourceRule{ResourceRule: v1alpha1.ResourceRule{APIVersion: "v1", Resource: "configmaps"}})
	case "ok-etag": // every optional webhook field of the ETag block set or unset
		t := true
		sp.Hooks.Sync.Webhook.Etag = &v1alpha1.WebhookEtagConfig{Enabled: &t}
		if ver%2 == 0 {
			s := int32(60)
			sp.Hooks.Sync.Webhook.Etag.CacheTimeoutSeconds = &s
		}
		if ver%3 == 0 {
			s := int32(30)
			sp.Hooks.Sync.Webhook.Etag.CacheCleanupSeconds = &s
		}
	case "ok-finalize":
		sp.Hooks.Finalize = &v1alpha1.Hook{Webhook: &v1alpha1.Webhook{URL: &url}}
	case "ok-resync": // legal but unusual resync periods: zero, negative, one second
		rp := []int32{0, -5, 1}[ver%3]
		sp.ResyncPeriodSeconds = &rp
	case "ok-customize": // a customize hook selecting all configmaps: the related informer is opened by the first sync
		curl := url + "-customize"
		sp.Hooks.Customize = &v1alpha1.Hook{Webhook: &v1alpha1.Webhook{URL: &curl}}
	case "badparent": // no such parent resource (and no CRD)
		sp.ParentResource.Resource = "nonesuch"
	case "nostatus": // parent CRD without the status subresource
		sp.ParentResource.Resource = "nostatuses"
	case "badchild": // the second child resource does not exist: fails after the first informers were opened
		sp.ChildResources = append(sp.ChildResources, v1alpha1.CompositeControllerChildResourceRule{ResourceRule: v1alpha1.ResourceRule{APIVersion: "example.com/v1", Resource: "nonesuch"}})
	case "nohooks":
		sp.Hooks = nil
	case "badwebhook": // neither url nor service
		sp.Hooks.Sync.Webhook = &v1alpha1.Webhook{}
	case "badselector":
		sp.ParentResource.LabelSelector = &metav1.LabelSelector{MatchExpressions: []metav1.LabelSelectorRequirement{{Key: "a", Operator: "Bogus"}}}
	}
	return sp
}

var metaClasses = []string{"ok", "ok", "ok2", "ok-etag", "ok-finalize", "ok-resync", "ok-customize", "badparent", "nostatus", "badchild", "nohooks", "badwebhook", "badselector"}

func TestVerifMeta(t *testing.T) {
	seed, n := vs.Params(40)
	out := vs.OpenOut()
	defer out.Close()
	for i := 0; i < n; i++ {
		if !vs.Mine(i) {
			continue
		}
		r := vs.CaseRand(seed, i)
		sim := vs.NewSim(metaDefs)
		hook := vs.NewHookServer(sim)
		var hmu sync.Mutex
		slow, entered := map[string]bool{}, map[string]int{}
		hook.Handler = func(name string, req map[string]interface{}) vs.HookAnswer {
			base := strings.TrimSuffix(name, "-customize")
			hmu.Lock()
			entered[base]++
			slowNow := slow[base]
			hmu.Unlock()
			if strings.HasSuffix(name, "-customize") {
				return vs.HookAnswer{Code: 200, Body: []byte(`{"relatedResources":[{"apiVersion":"v1","resource":"configmaps"}]}`)}
			}
			if slowNow {
				time.Sleep(150 * time.Millisecond) // a sync that is still in flight when its controller is stopped
			}
			return vs.HookAnswer{Code: 200, Body: []byte(`{"status":{"seen":true},"children":[]}`)}
		}
		hookBase := strings.TrimSuffix(*hook.URL(""), "/")
		resources := dynamicdiscovery.NewStaticResourceMap(resourceLists(metaDefs))
		restConfig := &rest.Config{Host: sim.URL()}
		dynClient, err := dynamicclientset.New(restConfig, resources)
		if err != nil {
			t.Fatal(err)
		}
		mcClient, err := mcclientset.NewForConfig(restConfig)
		if err != nil {
			t.Fatal(err)
		}
		scheme := runtime.NewScheme()
		_ = v1alpha1.AddToScheme(scheme)
		_ = apiextensionsv1.AddToScheme(scheme)
		k8s := fake.NewClientBuilder().WithScheme(scheme).WithObjects(crd("things", "Thing", true), crd("nostatuses", "NoStatus", false)).Build()
		factory := dynamicinformer.NewSharedInformerFactory(dynClient, 10*time.Minute)
		mc := &Metacontroller{
			k8sClient: k8s, resources: resources, dynClient: dynClient, dynInformers: factory,
			eventRecorder: record.NewFakeRecorder(100000), mcClient: mcClient,
			revisionLister:    mclisters.NewControllerRevisionLister(newIndexer()),
			parentControllers: map[string]*parentController{},
			numWorkers:        1, ssaOptions: &common.ApplyOptions{Strategy: common.ApplyStrategyDynamicApply}, logger: logr.Discard(),
		}
		// a parent already in the cluster, so that a started controller has something to sync
		thingClient, _ := dynClient.Resource(parentGroup+"/v1", "things")
		mkThing := func(v int) *unstructured.Unstructured {
			return &unstructured.Unstructured{Object: map[string]interface{}{"apiVersion": parentGroup + "/v1", "kind": "Thing",
				"metadata": map[string]interface{}{"name": "t1", "namespace": "ns1"}, "spec": map[string]interface{}{"v": int64(v), "selector": map[string]interface{}{"matchLabels": map[string]interface{}{"a": "b"}}}}}
		}
		if _, err := thingClient.Namespace("ns1").Create(context.TODO(), mkThing(0), metav1.CreateOptions{}); err != nil {
			t.Fatal(err)
		}
		hookPaths := func() map[string]int {
			m := map[string]int{}
			for _, e := range sim.LogCopy() {
				if e.Verb == "hook" {
					m[strings.TrimSuffix(e.Hook, "-customize")]++ // a customize call is a call on behalf of that instance
				}
			}
			return m
		}
		ver := map[string]int{}
		exists := map[string]bool{}
		class := map[string]string{}
		var events []vs.M
		nev := 3 + r.Intn(5)
		for k := 0; k < nev; k++ {
			name := r.Pick([]string{"a", "a", "b"})
			ev := vs.M{"name": name}
			ctx := context.TODO()
			switch {
			case !exists[name]:
				ver[name]++
				class[name] = metaClasses[r.Intn(len(metaClasses))]
				cc := &v1alpha1.CompositeController{ObjectMeta: metav1.ObjectMeta{Name: name}, Spec: metaSpec(class[name], name, ver[name], hookBase)}
				if err := k8s.Create(ctx, cc); err != nil {
					t.Fatal(err)
				}
				exists[name] = true
				ev["type"] = "create"
			default:
				switch r.Intn(4) {
				case 0: // delete
					cc := &v1alpha1.CompositeController{}
					_ = k8s.Get(ctx, types.NamespacedName{Name: name}, cc)
					if err := k8s.Delete(ctx, cc); err != nil {
						t.Fatal(err)
					}
					exists[name] = false
					ev["type"] = "delete"
				case 1: // update that leaves the spec alone (labels only)
					cc := &v1alpha1.CompositeController{}
					_ = k8s.Get(ctx, types.NamespacedName{Name: name}, cc)
					cc.Labels = map[string]string{"touched": fmt.Sprint(k)}
					if err := k8s.Update(ctx, cc); err != nil {
						t.Fatal(err)
					}
					ev["type"] = "noop-update"
				default: // spec-changing update
					ver[name]++
					class[name] = metaClasses[r.Intn(len(metaClasses))]
					cc := &v1alpha1.CompositeController{}
					_ = k8s.Get(ctx, types.NamespacedName{Name: name}, cc)
					cc.Spec = metaSpec(class[name], name, ver[name], hookBase)
					if err := k8s.Update(ctx, cc); err != nil {
						t.Fatal(err)
					}
					ev["type"] = "update"
				}
			}
			ev["class"] = class[name]
			ev["ver"] = ver[name]
			// sometimes the instance this event stops is in the middle of a sync (its hook call entered, not yet answered)
			inflightPath := ""
			if c, ok := mc.parentControllers[name]; ok && (ev["type"] == "delete" || ev["type"] == "update") && r.Chance(40) {
				if sp := c.cc.Spec; sp.Hooks != nil && sp.Hooks.Sync != nil && sp.Hooks.Sync.Webhook != nil && sp.Hooks.Sync.Webhook.URL != nil {
					u := *sp.Hooks.Sync.Webhook.URL
					inflightPath = u[strings.LastIndex(u, "/")+1:]
					hmu.Lock()
					slow[inflightPath] = true
					e0 := entered[inflightPath]
					hmu.Unlock()
					if cur, gerr := thingClient.Namespace("ns1").Get(ctx, "t1", metav1.GetOptions{}); gerr == nil {
						cur.Object["spec"].(map[string]interface{})["v"] = int64(1000 + k)
						_, _ = thingClient.Namespace("ns1").Update(ctx, cur, metav1.UpdateOptions{})
					}
					dl := time.Now().Add(2 * time.Second)
					for time.Now().Before(dl) {
						hmu.Lock()
						in := entered[inflightPath] > e0
						hmu.Unlock()
						if in {
							break
						}
						time.Sleep(2 * time.Millisecond)
					}
				}
			}
			ev["inflight"] = inflightPath != ""
			before := hookPaths()
			var recErr error
			panicked := ""
			func() {
				defer func() {
					if rec := recover(); rec != nil {
						panicked = fmt.Sprint(rec)
					}
				}()
				_, recErr = mc.Reconcile(ctx, reconcile.Request{NamespacedName: types.NamespacedName{Name: name}})
			}()
			ev["error"] = recErr != nil
			ev["panic"] = panicked
			if inflightPath != "" {
				hmu.Lock()
				slow[inflightPath] = false
				hmu.Unlock()
			}
			// which instances are running now, with which spec version
			running := vs.M{}
			instances := vs.M{} // identity of each hosted instance: an untouched controller keeps its instance
			var wantPaths []string
			for n2, pc := range mc.parentControllers {
				instances[n2] = fmt.Sprintf("%p", pc)
				u := ""
				if pc.cc.Spec.Hooks != nil && pc.cc.Spec.Hooks.Sync != nil && pc.cc.Spec.Hooks.Sync.Webhook != nil && pc.cc.Spec.Hooks.Sync.Webhook.URL != nil {
					u = *pc.cc.Spec.Hooks.Sync.Webhook.URL
				}
				p := u[strings.LastIndex(u, "/")+1:]
				running[n2] = p
				wantPaths = append(wantPaths, p)
			}
			// calls made from here on are made after Reconcile returned, i.e. after any Stop() completed
			before = hookPaths()
			// poke the parent: every running instance must sync it (a hook call on its own URL), no stopped one may
			cur, gerr := thingClient.Namespace("ns1").Get(ctx, "t1", metav1.GetOptions{})
			if gerr == nil {
				cur.Object["spec"].(map[string]interface{})["v"] = int64(k + 1)
				_, _ = thingClient.Namespace("ns1").Update(ctx, cur, metav1.UpdateOptions{})
			}
			waitUntil(func() bool {
				now := hookPaths()
				for _, p := range wantPaths {
					if now[p] <= before[p] {
						return false
					}
				}
				return true
			}, 5*time.Second)
			time.Sleep(60 * time.Millisecond) // settle: calls from instances that should be gone would show up here
			after := hookPaths()
			called := []string{}
			for p, c := range after {
				if c > before[p] {
					called = append(called, p)
				}
			}
			sort.Strings(called)
			ev["running"] = running
			ev["instances"] = instances
			ev["called"] = called
			rc, infs := factory.VerifCounts()
			sort.Strings(infs)
			ev["refCount"] = rc
			ev["informers"] = infs
			events = append(events, ev)
		}
		// stop everything that is left
		for _, pc := range mc.parentControllers {
			pc.Stop()
		}
		rc, _ := factory.VerifCounts()
		out.Line(vs.M{"kind": "meta", "ctl": "composite", "case": i, "seed": seed, "events": events, "finalRefCount": rc})
		hook.Close()
		sim.Server.CloseClientConnections() // a leaked informer's watch must not keep Close() waiting
		sim.Close()
	}
}

func waitUntil(cond func() bool, d time.Duration) bool {
	deadline := time.Now().Add(d)
	for time.Now().Before(deadline) {
		if cond() {
			return true
		}
		time.Sleep(3 * time.Millisecond)
	}
	return cond()
}
