package composite

// Scenario generator, scripted hook and trace writer for composite syncs.

import (
	"context"
	"encoding/json"
	"fmt"
	"os"
	"sort"
	"testing"

	"k8s.io/apimachinery/pkg/apis/meta/v1/unstructured"
	"k8s.io/apimachinery/pkg/runtime"
	utilruntime "k8s.io/apimachinery/pkg/util/runtime"

	"metacontroller/pkg/apis/metacontroller/v1alpha1"

	vs "metacontroller/pkg/internal/verifsim"
)

var lastSyncError string

func init() {
	utilruntime.ErrorHandlers = []utilruntime.ErrorHandler{func(_ context.Context, err error, msg string, _ ...interface{}) {
		if err != nil {
			lastSyncError = err.Error()
		}
	}}
}

var methods = []string{"", "OnDelete", "Recreate", "InPlace", "RollingRecreate", "RollingInPlace", "Bogus"}

// genCfg draws a controller configuration.
func genCfg(r *vs.Rand, allowRolling bool) scfg {
	cfg := scfg{Name: "cc", ParentNamespaced: r.Chance(70), ParentHasStatus: true}
	n := 1 + r.Intn(2)
	perm := []int{0, 1, 2}
	for i := 2; i > 0; i-- {
		j := r.Intn(i + 1)
		perm[i], perm[j] = perm[j], perm[i]
	}
	for i := 0; i < n; i++ {
		c := allChildKinds[perm[i]]
		if c.Resource == "globals" && cfg.ParentNamespaced {
			// a namespaced parent cannot own cluster-scoped children; keep the kind declared sometimes
			if !r.Chance(20) {
				c = allChildKinds[(perm[i]+1)%2]
			}
		}
		dup := false
		for _, x := range cfg.Children {
			if x.Resource == c.Resource {
				dup = true
			}
		}
		if dup {
			continue
		}
		for {
			c.Method = r.Pick(methods)
			isRolling := c.Method == "RollingRecreate" || c.Method == "RollingInPlace"
			if !isRolling || (allowRolling && (cfg.ParentNamespaced || r.Chance(15))) {
				break
			}
		}
		if (c.Method == "RollingInPlace" || c.Method == "RollingRecreate") && r.Chance(50) {
			c.Checks = []vs.M{{"type": "Ready", "status": "True"}}
		}
		cfg.Children = append(cfg.Children, c)
	}
	cfg.GenerateSelector = r.Chance(25)
	rollingCfgd := false
	for _, c := range cfg.Children {
		if c.Method == "RollingRecreate" || c.Method == "RollingInPlace" {
			rollingCfgd = true
		}
	}
	if rollingCfgd && r.Chance(35) {
		// custom revision-history field paths; spec.extra / spec.config are optional fields of the parent,
		// so an earlier path may be unset in an old revision
		cfg.FieldPaths = [][]string{{"spec.image"}, {"spec.extra", "spec.image"}, {"spec.config", "spec.image"}, {"spec.image", "spec.config"}, {"spec.image", "spec.hookMode"}}[r.Intn(5)]
	}
	if r.Chance(25) {
		cfg.ParentSelector = vs.M{"matchLabels": vs.M{"managed": "yes"}}
	}
	cfg.Finalize = r.Chance(40)
	cfg.SSA = r.Chance(15)
	if r.Chance(25) {
		cfg.Customize = true
		cfg.Related = []childSpec{{APIVersion: "v1", Resource: "secrets", Kind: "Secret", Namespaced: true}}
		hasGlobals := false
		for _, c := range cfg.Children {
			if c.Resource == "globals" {
				hasGlobals = true
			}
		}
		if !hasGlobals && r.Chance(40) {
			// a cluster-scoped related resource: a namespaced parent is shown nothing of it, whatever the rule says
			cfg.Related = append(cfg.Related, childSpec{APIVersion: "example.com/v1", Resource: "globals", Kind: "Global", Namespaced: false})
		}
	}
	return cfg
}

// ---- scripted hook ----------------------------------------------------------------------------
//
// The hook is a pure function of its request. What it wants is read from the parent it is sent:
//   spec.replicas N, spec.image, spec.childLabels (labels for the children), spec.hookMode.
// Desired: N objects of the first child kind named <parent>-<i>; one object of the second kind
// named <parent>-cfg when spec.config is set.

func objStr(m map[string]interface{}, path ...string) string {
	var cur interface{} = m
	for _, p := range path {
		mm, ok := cur.(map[string]interface{})
		if !ok {
			return ""
		}
		cur = mm[p]
	}
	s, _ := cur.(string)
	return s
}
func objInt(m map[string]interface{}, path ...string) int64 {
	var cur interface{} = m
	for _, p := range path {
		mm, ok := cur.(map[string]interface{})
		if !ok {
			return 0
		}
		cur = mm[p]
	}
	switch t := cur.(type) {
	case int64:
		return t
	case float64:
		return int64(t)
	}
	return 0
}
func objMap(m map[string]interface{}, path ...string) map[string]interface{} {
	var cur interface{} = m
	for _, p := range path {
		mm, ok := cur.(map[string]interface{})
		if !ok {
			return nil
		}
		cur = mm[p]
	}
	mm, _ := cur.(map[string]interface{})
	return mm
}

func hookKey(c childSpec) string {
	if c.group() == "" {
		return c.Kind + "." + c.version()
	}
	return c.Kind + "." + c.APIVersion
}

func scriptedHook(cfg scfg) func(name string, req map[string]interface{}) vs.HookAnswer {
	return func(name string, req map[string]interface{}) vs.HookAnswer {
		parent := objMap(req, "parent")
		if name == "customize" {
			rules := []interface{}{}
			if rr, ok := objMap(parent, "spec")["relatedRules"].([]interface{}); ok {
				rules = rr
			}
			b, _ := json.Marshal(vs.M{"relatedResources": rules})
			return vs.HookAnswer{Code: 200, Body: b}
		}
		pname := objStr(parent, "metadata", "name")
		mode := objStr(parent, "spec", "hookMode")
		finalizing, _ := req["finalizing"].(bool)
		children := objMap(req, "children")
		resp := vs.M{}
		desired := []interface{}{}
		observed := 0
		ready := 0
		if len(cfg.Children) > 0 {
			if g := objMap(children, hookKey(cfg.Children[0])); g != nil {
				observed = len(g)
				for _, o := range g {
					if om, ok := o.(map[string]interface{}); ok {
						if b, _ := objMap(om, "status")["ready"].(bool); b {
							ready++
						}
					}
				}
			}
		}
		if !finalizing || mode == "finalize-keeps" || mode == "finalize-latest" || mode == "finalize-oldest" {
			n := int(objInt(parent, "spec", "replicas"))
			for i := 0; i < n && len(cfg.Children) > 0; i++ {
				c := cfg.Children[0]
				md := vs.M{"name": fmt.Sprintf("%s-%d", pname, i)}
				if l := objMap(parent, "spec", "childLabels"); l != nil {
					md["labels"] = vs.DeepCopy(l)
				}
				if mode == "ns-explicit" && c.Namespaced {
					md["namespace"] = objStr(parent, "metadata", "namespace")
					if md["namespace"] == "" {
						md["namespace"] = "ns1"
					}
				} else if c.Namespaced && objStr(parent, "metadata", "namespace") == "" {
					md["namespace"] = "ns1"
				}
				o := vs.M{"apiVersion": c.APIVersion, "kind": c.Kind, "metadata": md}
				if c.Kind == "ConfigMap" {
					o["data"] = vs.M{"image": objStr(parent, "spec", "image")}
				} else {
					sp := vs.M{"image": objStr(parent, "spec", "image")}
					if e, ok := objMap(parent, "spec")["extra"]; ok {
						sp["extra"] = vs.DeepCopy(e)
					}
					o["spec"] = sp
				}
				if mode == "echo-annotations" {
					// a hook that builds its answer from what it observed: annotations (including metacontroller's own
					// last-applied record) are copied onto the desired child
					if g := objMap(children, hookKey(c)); g != nil {
						if om, ok := g[fmt.Sprint(md["name"])].(map[string]interface{}); ok {
							if a := objMap(om, "metadata", "annotations"); a != nil {
								md["annotations"] = vs.DeepCopy(a)
							}
						}
					}
				}
				if mode == "foreign-uid-label" && i == 0 {
					// a hook that copies labels from somewhere else: the child carries another parent's controller-uid label
					lbl, _ := md["labels"].(map[string]interface{})
					if lbl == nil {
						lbl = vs.M{}
					}
					lbl["controller-uid"] = "uid-of-someone-else"
					md["labels"] = lbl
				}
				if mode == "child-status" {
					// a hook that copies whole objects, status included
					o["status"] = vs.M{"ready": true}
				}
				if mode == "sts" && i > 0 && i > ready {
					break
				}
				desired = append(desired, o)
			}
			if cm := objStr(parent, "spec", "config"); cm != "" && len(cfg.Children) > 1 {
				c := cfg.Children[1]
				md := vs.M{"name": pname + "-cfg"}
				if l := objMap(parent, "spec", "childLabels"); l != nil {
					md["labels"] = vs.DeepCopy(l)
				}
				if c.Namespaced && objStr(parent, "metadata", "namespace") == "" {
					md["namespace"] = "ns1"
				}
				o := vs.M{"apiVersion": c.APIVersion, "kind": c.Kind, "metadata": md}
				if c.Kind == "ConfigMap" {
					o["data"] = vs.M{"config": cm}
				} else {
					o["spec"] = vs.M{"config": cm}
				}
				desired = append(desired, o)
			}
		}
		resp["children"] = desired
		switch mode {
		case "null-status":
		case "own-condition":
			// the hook reports a condition of the type metacontroller maintains itself; its status depends on the image, so that
			// it sometimes coincides with what metacontroller is about to write (False while rolling, True when done)
			st := map[string]string{"v1": "False", "v2": "True"}[objStr(parent, "spec", "image")]
			if st == "" {
				st = "Unknown"
			}
			resp["status"] = vs.M{"replicas": int64(observed), "conditions": []interface{}{vs.M{"type": "Updated", "status": st, "reason": "HookSays", "message": "from the hook"}}}
		default:
			resp["status"] = vs.M{"replicas": int64(observed), "ready": int64(ready)}
		}
		if finalizing {
			// "finalize-latest": the answer depends on the (revisioned) spec, so parent revisions can disagree
			img := objStr(parent, "spec", "image")
			resp["finalized"] = observed == 0 || mode == "finalize-now" || (mode == "finalize-latest" && (img == "v2" || img == "v3")) ||
				(mode == "finalize-oldest" && img == "v1")
		}
		if mode == "resync" {
			resp["resyncAfterSeconds"] = int64(30)
		}
		// spec.nullAt: the answer lists a null entry among its children (legal; it is skipped, the order of the others stays)
		if at, ok := objMap(parent, "spec")["nullAt"]; ok {
			if kids, ok := resp["children"].([]interface{}); ok {
				pos := int(objInt(parent, "spec", "nullAt"))
				_ = at
				if pos > len(kids) {
					pos = len(kids)
				}
				withNull := append([]interface{}{}, kids[:pos]...)
				withNull = append(withNull, nil)
				withNull = append(withNull, kids[pos:]...)
				resp["children"] = withNull
			}
		}
		b, _ := json.Marshal(resp)
		return vs.HookAnswer{Code: 200, Body: b}
	}
}

// ---- cluster contents -------------------------------------------------------------------------

type scenario struct {
	Cfg   scfg
	Notes []string
	w     *world
	key   string
	// hidden process state as it was before the sync being recorded
	revNameBefore string
	memoBefore    []interface{}
	custBefore    interface{}
	custExpected  interface{}
	// the fair environment leaves observedGeneration one behind this round
	lag bool
	// the fair environment makes the first child unhealthy this round (0 = no; 1-3 = how observedGeneration is reported)
	sick int
	// how the children's controller reports status.observedGeneration in this scenario: 0 properly, 1 not at all, 2 always 0
	ogMode int
}

func ownerRef(parent map[string]interface{}, controller bool) vs.M {
	return vs.M{"apiVersion": objStr(parent, "apiVersion"), "kind": objStr(parent, "kind"), "name": objStr(parent, "metadata", "name"),
		"uid": objStr(parent, "metadata", "uid"), "controller": controller, "blockOwnerDeletion": true}
}

// buildScenario creates a world and fills the store with a parent and children in assorted roles.
func buildScenario(r *vs.Rand, cfg scfg) *scenario {
	sc := &scenario{Cfg: cfg}
	w := newWorld(cfg)
	sc.w = w
	w.hook.Handler = scriptedHook(cfg)
	ns := ""
	if cfg.ParentNamespaced {
		ns = "ns1"
	}
	sel := vs.M{"app": r.Pick([]string{"web", "db"})}
	spec := vs.M{"replicas": int64(r.Intn(4)), "image": r.Pick([]string{"v1", "v2"}), "selector": vs.M{"matchLabels": vs.DeepCopy(sel)}}
	childLabels := vs.DeepCopy(sel).(map[string]interface{})
	if r.Chance(30) {
		childLabels["tier"] = "x"
	}
	spec["childLabels"] = childLabels
	if r.Chance(85) {
		// ControllerRevisions are found through the labels of spec.template
		spec["template"] = vs.M{"metadata": vs.M{"labels": vs.DeepCopy(sel)}}
	}
	if r.Chance(40) {
		spec["config"] = r.Pick([]string{"c1", "c2"})
	}
	if r.Chance(25) {
		ex := vs.M{"a": int64(r.Intn(3))}
		if r.Chance(50) {
			// name-keyed lists whose items share two conventional merge keys: the same volume mounted at two paths
			// (values repeat under "name", not under "mountPath"), and ports that are unique under both keys
			ex["mounts"] = []interface{}{vs.M{"name": "data", "mountPath": "/a"}, vs.M{"name": "data", "mountPath": "/b"}, vs.M{"name": "cfg", "mountPath": "/c"}}
			ex["ports"] = []interface{}{vs.M{"name": "http", "port": int64(80)}, vs.M{"name": "https", "port": int64(443)}}
		}
		spec["extra"] = ex
	}
	switch r.Intn(18) {
	case 0:
		spec["hookMode"] = "null-status"
	case 1:
		spec["hookMode"] = "ns-explicit"
	case 2:
		spec["hookMode"] = "resync"
	case 3:
		spec["hookMode"] = "sts"
	case 4:
		spec["hookMode"] = "bad-labels"
		spec["childLabels"] = vs.M{"app": "other"}
	case 5:
		spec["hookMode"] = "own-condition"
	case 6:
		spec["hookMode"] = "finalize-now"
	case 7:
		spec["hookMode"] = "finalize-keeps"
	case 8:
		spec["hookMode"] = "finalize-latest"
	case 9:
		spec["hookMode"] = "child-status"
	case 10:
		spec["hookMode"] = "echo-annotations"
	case 11:
		spec["hookMode"] = "foreign-uid-label"
	}
	if cfg.GenerateSelector {
		// with selector generation the children need no matching labels of their own
		if r.Chance(50) {
			delete(spec, "childLabels")
		}
	}
	if cfg.Customize {
		var rules []interface{}
		nr := 1 + r.Intn(2)
		for i := 0; i < nr; i++ {
			rule := vs.M{"apiVersion": "v1", "resource": "secrets"}
			switch r.Intn(7) {
			case 0:
				rule["labelSelector"] = vs.M{"matchLabels": vs.M{"use": "yes"}}
			case 1:
				rule["labelSelector"] = vs.M{}
			case 2:
				rule["namespace"] = "ns1"
			case 3:
				rule["names"] = []interface{}{"s1", "s3"}
			case 4:
				rule["namespace"] = r.Pick([]string{"ns1", "ns2"})
				rule["names"] = []interface{}{"s1"}
			case 5: // invalid mix
				rule["labelSelector"] = vs.M{"matchLabels": vs.M{"use": "yes"}}
				rule["names"] = []interface{}{"s1"}
			case 6: // neither: select by (empty) labels = everything
			}
			rules = append(rules, rule)
		}
		if len(cfg.Related) > 1 {
			rule := vs.M{"apiVersion": "example.com/v1", "resource": "globals"}
			switch r.Intn(4) {
			case 0:
				rule["names"] = []interface{}{"g1"}
			case 1:
				rule["labelSelector"] = vs.M{"matchLabels": vs.M{"use": "yes"}}
			case 2:
				rule["names"] = []interface{}{"g1", "g2"}
			case 3: // everything
			}
			if r.Bool() {
				rules = append(rules, rule)
			} else {
				rules = append([]interface{}{rule}, rules...)
			}
			for _, n := range []string{"g1", "g2"} {
				if r.Chance(70) {
					lbl := vs.M{}
					if r.Bool() {
						lbl["use"] = "yes"
					}
					w.sim.Put("example.com", "globals", vs.M{"apiVersion": "example.com/v1", "kind": "Global", "metadata": vs.M{"name": n, "labels": lbl}, "spec": vs.M{"k": r.Pick([]string{"a", "b"})}})
				}
			}
		}
		if r.Chance(8) {
			rules = append(rules, nil)
		}
		spec["relatedRules"] = rules
		for _, rns := range []string{"ns1", "ns2"} {
			for _, n := range []string{"s1", "s2", "s3"} {
				if r.Chance(60) {
					lbl := vs.M{}
					if r.Bool() {
						lbl["use"] = "yes"
					}
					w.sim.Put("", "secrets", vs.M{"apiVersion": "v1", "kind": "Secret", "metadata": vs.M{"name": n, "namespace": rns, "labels": lbl}, "data": vs.M{"k": r.Pick([]string{"a", "b"})}})
				}
			}
		}
	}
	pmd := vs.M{"name": "p1", "labels": vs.M{}}
	if ns != "" {
		pmd["namespace"] = ns
	}
	if cfg.ParentSelector != nil && !r.Chance(20) {
		pmd["labels"] = vs.M{"managed": "yes"}
	}
	finName := "metacontroller.io/compositecontroller-" + cfg.Name
	var fins []interface{}
	if r.Chance(15) {
		fins = append(fins, "example.com/other")
	}
	hasFin := (cfg.Finalize && r.Chance(70)) || (!cfg.Finalize && r.Chance(10))
	if hasFin {
		fins = append(fins, finName)
	}
	deleting := r.Chance(15)
	if deleting {
		if r.Chance(25) {
			fins = append(fins, "foregroundDeletion")
		}
		if len(fins) == 0 {
			fins = append(fins, "example.com/blocker")
		}
		pmd["deletionTimestamp"] = "2024-01-01T00:00:01Z"
	}
	if len(fins) > 0 {
		pmd["finalizers"] = fins
	}
	parent := vs.M{"apiVersion": parentGroup + "/v1", "kind": cfg.parentKind(), "metadata": pmd, "spec": spec}
	if r.Chance(50) {
		parent["status"] = vs.M{"replicas": int64(r.Intn(3)), "observedGeneration": int64(1)}
	}
	stored := w.sim.Put(parentGroup, cfg.parentResource(), parent)
	if ns == "" {
		sc.key = "p1"
	} else {
		sc.key = ns + "/p1"
	}
	// a second parent (look-alike owner)
	other := vs.M{"apiVersion": parentGroup + "/v1", "kind": cfg.parentKind(), "metadata": vs.M{"name": "p2", "labels": vs.DeepCopy(pmd["labels"])}, "spec": vs.DeepCopy(spec)}
	if ns != "" {
		other["metadata"].(vs.M)["namespace"] = ns
	}
	otherStored := w.sim.Put(parentGroup, cfg.parentResource(), other)

	// children in roles
	for ci, c := range cfg.Children {
		cns := ""
		if c.Namespaced {
			cns = "ns1"
		}
		mk := func(name string, labels map[string]interface{}, owner interface{}, image string) vs.M {
			md := vs.M{"name": name}
			if cns != "" {
				md["namespace"] = cns
			}
			if labels != nil {
				md["labels"] = vs.DeepCopy(labels)
			}
			if owner != nil {
				md["ownerReferences"] = []interface{}{owner}
			}
			o := vs.M{"apiVersion": c.APIVersion, "kind": c.Kind, "metadata": md}
			if c.Kind == "ConfigMap" {
				o["data"] = vs.M{"image": image}
			} else {
				o["spec"] = vs.M{"image": image}
			}
			return o
		}
		withLA := func(o vs.M, la vs.M) vs.M {
			md := o["metadata"].(vs.M)
			ann, _ := md["annotations"].(vs.M)
			if ann == nil {
				ann = vs.M{}
			}
			ann[vs.LastAppliedAnnotation] = vs.MustJSON(la)
			md["annotations"] = ann
			return o
		}
		lbl := childLabels
		if cfg.GenerateSelector {
			lbl = vs.DeepCopy(childLabels).(map[string]interface{})
			lbl["controller-uid"] = objStr(stored, "metadata", "uid")
		}
		image := objStr(spec, "image")
		n := int(objInt(spec, "replicas"))
		if ci == 0 {
			for i := 0; i < n+1; i++ {
				name := fmt.Sprintf("p1-%d", i)
				switch r.Intn(10) {
				case 9: // owned, applied earlier with exactly what the hook still wants, then changed by an outside writer
					la := mk(name, childLabels, nil, image)
					delete(la["metadata"].(vs.M), "namespace")
					if _, ok := spec["childLabels"]; !ok {
						delete(la["metadata"].(vs.M), "labels")
					}
					w.sim.Put(c.group(), c.Resource, withLA(mk(name, lbl, ownerRef(stored, true), "drifted"), la))
				case 0: // missing
				case 1, 2: // owned and up to date (as a previous sync would have left it)
					la := mk(name, childLabels, nil, image)
					delete(la["metadata"].(vs.M), "namespace")
					if _, ok := spec["childLabels"]; !ok {
						delete(la["metadata"].(vs.M), "labels")
					}
					o := withLA(mk(name, lbl, ownerRef(stored, true), image), la)
					if c.HasStatus && r.Chance(60) {
						// a child controller reports status; sometimes it has not observed the latest generation yet,
						// sometimes its condition is not (yet) the one the status checks want
						gen := int64(1 + r.Intn(3))
						og := gen
						if r.Chance(35) {
							og = gen - 1
						}
						o["metadata"].(vs.M)["generation"] = gen
						st := vs.M{"ready": true, "observedGeneration": og, "conditions": []interface{}{vs.M{"type": "Ready", "status": r.Pick([]string{"True", "True", "False"})}}}
						if r.Chance(30) {
							// a child controller that does not report observedGeneration at all (or reports 0)
							if r.Bool() {
								delete(st, "observedGeneration")
							} else {
								st["observedGeneration"] = int64(0)
							}
						}
						o["status"] = st
					}
					w.sim.Put(c.group(), c.Resource, o)
				case 3: // owned, stale image
					la := mk(name, childLabels, nil, "v0")
					delete(la["metadata"].(vs.M), "namespace")
					w.sim.Put(c.group(), c.Resource, withLA(mk(name, lbl, ownerRef(stored, true), "v0"), la))
				case 4: // matching orphan; sometimes it already lists the parent as a plain (non-controller) owner, as tooling that only
					// wants garbage collection writes it
					if r.Chance(35) {
						plain := ownerRef(stored, false)
						if r.Chance(50) {
							delete(plain, "controller")
						}
						w.sim.Put(c.group(), c.Resource, mk(name, lbl, plain, image))
					} else {
						w.sim.Put(c.group(), c.Resource, mk(name, lbl, nil, image))
					}
				case 5: // owned by the other parent (look-alike)
					w.sim.Put(c.group(), c.Resource, mk(name, lbl, ownerRef(otherStored, true), image))
				case 6: // owned but labels no longer match
					w.sim.Put(c.group(), c.Resource, mk(name, vs.M{"app": "nomatch"}, ownerRef(stored, true), image))
				case 7: // owned, pending deletion
					o := mk(name, lbl, ownerRef(stored, true), "v0")
					o["metadata"].(vs.M)["deletionTimestamp"] = "2024-01-01T00:00:02Z"
					o["metadata"].(vs.M)["finalizers"] = []interface{}{"example.com/hold"}
					w.sim.Put(c.group(), c.Resource, o)
				case 8: // owned with drift in a foreign field and an extra non-controller owner
					la := mk(name, childLabels, nil, image)
					delete(la["metadata"].(vs.M), "namespace")
					o := withLA(mk(name, lbl, ownerRef(stored, true), image), la)
					if sp, ok := o["spec"].(vs.M); ok {
						sp["foreign"] = "f"
					}
					refs := o["metadata"].(vs.M)["ownerReferences"].([]interface{})
					o["metadata"].(vs.M)["ownerReferences"] = append([]interface{}{vs.M{"apiVersion": "v1", "kind": "Other", "name": "x", "uid": "other-uid"}}, refs...)
					w.sim.Put(c.group(), c.Resource, o)
				}
			}
			// an owned child the hook does not want
			if r.Chance(40) {
				w.sim.Put(c.group(), c.Resource, mk("p1-extra", lbl, ownerRef(stored, true), image))
			}
			// non-matching orphan, other-namespace look-alike
			if r.Chance(30) {
				w.sim.Put(c.group(), c.Resource, mk("stray", vs.M{"app": "nomatch"}, nil, image))
			}
			if r.Chance(30) && c.Namespaced {
				o := mk("p1-0", lbl, nil, image)
				o["metadata"].(vs.M)["namespace"] = "ns2"
				w.sim.Put(c.group(), c.Resource, o)
			}
		} else if r.Chance(50) {
			o := mk("p1-cfg", lbl, ownerRef(stored, true), "x")
			if c.Kind == "ConfigMap" {
				o["data"] = vs.M{"config": r.Pick([]string{"c1", "c2"})}
			} else {
				o["spec"] = vs.M{"config": r.Pick([]string{"c1", "c2"})}
			}
			w.sim.Put(c.group(), c.Resource, o)
		}
	}
	// rolling strategies: sometimes a rollout is already in progress
	anyRolling := false
	kindOf := map[string]childSpec{}
	for _, c := range cfg.Children {
		kindOf[c.Resource] = c
		if c.Method == "RollingInPlace" || c.Method == "RollingRecreate" {
			anyRolling = true
		}
	}
	if anyRolling && r.Chance(75) {
		rel := func(c childSpec, name string) string {
			if ns == "" && c.Namespaced {
				return "ns1/" + name
			}
			return name
		}
		oldClaims, newClaims := map[string][]string{}, map[string][]string{}
		for _, c := range cfg.Children {
			if c.Method != "RollingInPlace" && c.Method != "RollingRecreate" {
				if r.Chance(20) {
					oldClaims[c.Resource] = []string{rel(c, "p1-0")} // claim of a kind that does not roll any more
				}
				continue
			}
			for i := 0; i < int(objInt(spec, "replicas"))+1; i++ {
				n := rel(c, fmt.Sprintf("p1-%d", i))
				switch r.Intn(5) {
				case 0, 1:
					oldClaims[c.Resource] = append(oldClaims[c.Resource], n)
				case 2:
					newClaims[c.Resource] = append(newClaims[c.Resource], n)
				case 3: // duplicate claim (as a crash between two revision updates leaves it)
					oldClaims[c.Resource] = append(oldClaims[c.Resource], n)
					newClaims[c.Resource] = append(newClaims[c.Resource], n)
				}
			}
		}
		oldParent := vs.DeepCopy(stored).(map[string]interface{})
		oldParent["spec"].(map[string]interface{})["image"] = "v0"
		if len(oldClaims) > 0 || r.Chance(30) {
			sc.putRevision(oldParent, oldClaims, kindOf)
		}
		if r.Chance(60) {
			sc.putRevision(stored, newClaims, kindOf)
		}
		if r.Chance(15) {
			older := vs.DeepCopy(stored).(map[string]interface{})
			older["spec"].(map[string]interface{})["image"] = "v00"
			sc.putRevision(older, map[string][]string{cfg.Children[0].Resource: {rel(cfg.Children[0], "p1-0")}}, kindOf)
		}
		if r.Chance(25) {
			// one of the parent's revisions lost its owner reference (an orphan the next sync adopts)
			for _, o := range w.sim.List(revGroup, "controllerrevisions") {
				w.sim.Mutate(revGroup, "controllerrevisions", objStr(o, "metadata", "namespace"), objStr(o, "metadata", "name"), func(x map[string]interface{}) {
					delete(x["metadata"].(map[string]interface{}), "ownerReferences")
				})
				break
			}
		}
	}
	w.fillCaches()
	return sc
}

// traceLine assembles the record of one sync.
func (sc *scenario) traceLine(i int, seed uint64, storeBefore []map[string]interface{}, cacheBefore vs.M, outcome, detail string) vs.M {
	w := sc.w
	calls := w.sim.LogCopy()
	cacheAfter := w.cacheDump()
	return vs.M{"kind": "sync", "ctl": "composite", "case": i, "seed": seed, "cfg": sc.Cfg, "key": sc.key, "revName": sc.revNameBefore,
		"memoBefore": sc.memoBefore, "customizeCached": sc.custBefore, "customizeExpected": sc.custExpected,
		"cache": cacheBefore, "storeBefore": storeBefore, "calls": calls, "storeAfter": w.sim.Snapshot(), "defs": w.sim.Defs(),
		"result":      vs.M{"outcome": outcome, "detail": detail, "queue": w.q.Ops},
		"cacheIntact": vs.MustJSON(cacheBefore) == vs.MustJSON(cacheAfter)}
}

// revName: the name newControllerRevision would give a revision of the cached parent's current patch
// (a SHA-1; supplied to the model as an oracle value).
func (sc *scenario) revName() string {
	w := sc.w
	var parent *unstructured.Unstructured
	for _, it := range w.parentIdx.List() {
		u := it.(*unstructured.Unstructured)
		if u.GetName() == "p1" {
			parent = u
		}
	}
	if parent == nil {
		return ""
	}
	fps := sc.Cfg.FieldPaths
	if len(fps) == 0 {
		fps = []string{"spec"}
	}
	patch, err := makePatch(parent.UnstructuredContent(), fps)
	if err != nil {
		return ""
	}
	data, err := json.Marshal(patch)
	if err != nil {
		return ""
	}
	return controllerRevisionName(&w.pc.parentResource.APIResource, parent, data)
}

// putRevision stores a ControllerRevision for parent whose revisioned fields are as in `specOf`.
func (sc *scenario) putRevision(parent map[string]interface{}, claims map[string][]string, kindOf map[string]childSpec) {
	w := sc.w
	pu := &unstructured.Unstructured{Object: parent}
	fps := sc.Cfg.FieldPaths
	if len(fps) == 0 {
		fps = []string{"spec"}
	}
	patch, err := makePatch(parent, fps)
	if err != nil {
		panic(err)
	}
	rev, err := w.pc.newControllerRevision(pu, patch)
	if err != nil {
		return
	}
	var res []string
	for r := range claims {
		res = append(res, r)
	}
	sort.Strings(res)
	for _, r := range res {
		c := kindOf[r]
		rev.Children = append(rev.Children, v1alpha1.ControllerRevisionChildren{APIGroup: c.group(), Kind: c.Kind, Names: claims[r]})
	}
	m, err := runtime.DefaultUnstructuredConverter.ToUnstructured(rev)
	if err != nil {
		panic(err)
	}
	if md, ok := m["metadata"].(map[string]interface{}); ok {
		delete(md, "creationTimestamp")
	}
	w.sim.Put(revGroup, "controllerrevisions", m)
}

func (sc *scenario) syncOnce(i int, seed uint64) vs.M {
	w := sc.w
	w.sim.ResetLog()
	storeBefore := w.sim.Snapshot()
	cacheBefore := w.cacheDump()
	sc.revNameBefore = sc.revName()
	sc.memoBefore = w.memoDump()
	sc.custBefore = w.customizeCached("p1")
	sc.custExpected = w.customizeExpected("p1")
	outcome, detail := w.runSync(sc.key)
	w.noteApplies()
	return sc.traceLine(i, seed, storeBefore, cacheBefore, outcome, detail)
}

// TestVerifSync: single syncs of generated scenarios (no rolling strategies).
func TestVerifSync(t *testing.T) {
	seed, n := vs.Params(500)
	out := vs.OpenOut()
	defer out.Close()
	rolling := os.Getenv("VERIF_ROLLING") == "1"
	for i := 0; i < n; i++ {
		if !vs.Mine(i) {
			continue
		}
		r := vs.CaseRand(seed, i)
		cfg := genCfg(r, rolling)
		sc := buildScenario(r, cfg)
		out.Line(sc.syncOnce(i, seed))
		sc.w.close()
	}
}

var _ = sort.Strings
