package composite

// Multi-sync scenarios: convergence, rollouts, crashes, faults, malformed hook answers,
// interleaved outside writers and stale caches. Every sync is written as an ordinary "sync"
// trace line; each scenario ends with one "rounds" summary line for the cross-round properties.

import (
	"crypto/sha1"
	"encoding/hex"
	"encoding/json"
	"fmt"
	"os"
	"sort"
	"strings"
	"testing"

	"k8s.io/apimachinery/pkg/apis/meta/v1/unstructured"

	"metacontroller/pkg/controller/common"
	vs "metacontroller/pkg/internal/verifsim"
)

// project drops what legitimately differs between two runs (uids, versions, timestamps).
func project(objs []map[string]interface{}) []interface{} {
	out := []interface{}{}
	// the simulator has no garbage collector: an object whose controller owner is gone from the store would be collected
	// in a cluster (background propagation), so it is not part of the state two runs are compared on
	live := map[string]bool{}
	for _, o := range objs {
		if md, ok := o["metadata"].(map[string]interface{}); ok {
			if u, ok := md["uid"].(string); ok {
				live[u] = true
			}
		}
	}
	for _, o := range objs {
		if md, ok := o["metadata"].(map[string]interface{}); ok {
			orphaned := false
			if refs, ok := md["ownerReferences"].([]interface{}); ok {
				for _, r := range refs {
					if m, ok := r.(map[string]interface{}); ok {
						if c, _ := m["controller"].(bool); c {
							if u, _ := m["uid"].(string); u != "" && !live[u] {
								orphaned = true
							}
						}
					}
				}
			}
			if orphaned {
				continue
			}
		}
		c := vs.DeepCopy(o).(map[string]interface{})
		if md, ok := c["metadata"].(map[string]interface{}); ok {
			for _, k := range []string{"uid", "resourceVersion", "creationTimestamp", "generation", "deletionTimestamp"} {
				delete(md, k)
			}
			if refs, ok := md["ownerReferences"].([]interface{}); ok {
				for _, r := range refs {
					if m, ok := r.(map[string]interface{}); ok {
						delete(m, "uid")
					}
				}
			}
			if lbl, ok := md["labels"].(map[string]interface{}); ok {
				delete(lbl, "controller-uid")
			}
		}
		out = append(out, c)
	}
	return out
}

func digest(v interface{}) string {
	h := sha1.Sum([]byte(vs.MustJSON(v)))
	return hex.EncodeToString(h[:8])
}

// fairEnv: the outside world makes every child healthy (status ready, Ready condition, generation observed).
func (sc *scenario) fairEnv() {
	w := sc.w
	for _, c := range sc.Cfg.Children {
		for _, o := range w.sim.List(c.group(), c.Resource) {
			name, ns := objStr(o, "metadata", "name"), objStr(o, "metadata", "namespace")
			gen := objInt(o, "metadata", "generation")
			st, _ := o["status"].(map[string]interface{})
			if sc.lag && gen > 1 {
				gen--
			}
			want := vs.M{"ready": true, "observedGeneration": gen, "conditions": []interface{}{vs.M{"type": "Ready", "status": "True"}}}
			switch sc.ogMode {
			case 1: // the children's controller does not report observedGeneration
				delete(want, "observedGeneration")
			case 2: // ... or serialises the field without ever setting it
				want["observedGeneration"] = int64(0)
			}
			if sc.sick > 0 && name == "p1-0" {
				// one round in which the first child is unhealthy: its Ready condition is False; its controller may not report
				// observedGeneration at all (1), report 0 (2) or report it properly (3)
				want = vs.M{"ready": false, "conditions": []interface{}{vs.M{"type": "Ready", "status": "False"}}}
				switch sc.sick {
				case 2:
					want["observedGeneration"] = int64(0)
				case 3:
					want["observedGeneration"] = gen
				}
			}
			if st != nil && vs.MustJSON(st) == vs.MustJSON(want) {
				continue
			}
			if objStr(o, "metadata", "deletionTimestamp") != "" {
				continue
			}
			w.sim.Mutate(c.group(), c.Resource, ns, name, func(o map[string]interface{}) { o["status"] = want })
		}
	}
}

type roundInfo struct {
	Outcome       string   `json:"outcome"`
	Detail        string   `json:"detail"`        // error text of the sync, truncated
	DepWrites     int      `json:"depWrites"`     // accepted writes to children / ControllerRevisions
	ChildWrites   int      `json:"childWrites"`   // accepted writes to children only
	ContentWrites []string `json:"contentWrites"` // children created/deleted/changed in content (resource/name:verb)
	StoreDigest   string   `json:"storeDigest"`
	Updated       string   `json:"updated"` // status.conditions[Updated]: status/reason
	Revisions     int      `json:"revisions"`
	Images        vs.M     `json:"images"`
	Requests      int      `json:"requests"`
}

func (sc *scenario) info(line vs.M) roundInfo {
	w := sc.w
	ri := roundInfo{Outcome: line["result"].(vs.M)["outcome"].(string), Images: vs.M{}}
	if d, ok := line["result"].(vs.M)["detail"].(string); ok {
		if len(d) > 400 {
			d = d[:400]
		}
		ri.Detail = d
	}
	calls := line["calls"].([]vs.LogEntry)
	ri.Requests = len(calls)
	for _, e := range calls {
		if e.Verb == "hook" || e.Code >= 300 {
			continue
		}
		isParent := e.Group == parentGroup && e.Name == "p1"
		if isParent {
			continue
		}
		switch e.Verb {
		case "create", "delete", "apply", "patchRemove", "update":
			ri.DepWrites++
			if e.Resource != "controllerrevisions" {
				ri.ChildWrites++
				content := e.Verb != "update"
				if e.Verb == "update" && e.Pre != nil {
					a, b := vs.DeepCopy(e.Pre).(map[string]interface{}), vs.DeepCopy(e.Body).(map[string]interface{})
					for _, m := range []map[string]interface{}{a, b} {
						if md, ok := m["metadata"].(map[string]interface{}); ok {
							delete(md, "ownerReferences")
							delete(md, "resourceVersion")
						}
					}
					content = vs.MustJSON(a) != vs.MustJSON(b)
				}
				if content {
					ri.ContentWrites = append(ri.ContentWrites, e.Resource+"/"+e.Name+":"+e.Verb)
				}
			}
		}
	}
	ri.StoreDigest = digest(project(w.sim.Snapshot()))
	ri.Revisions = len(w.sim.List(revGroup, "controllerrevisions"))
	if p := w.sim.GetObj(parentGroup, sc.Cfg.parentResource(), nsOfKey(sc.key), "p1"); p != nil {
		if conds, ok := objMap(p, "status")["conditions"].([]interface{}); ok {
			for _, c := range conds {
				if m, ok := c.(map[string]interface{}); ok && m["type"] == "Updated" {
					ri.Updated = fmt.Sprintf("%v/%v", m["status"], m["reason"])
				}
			}
		}
	}
	for _, c := range sc.Cfg.Children {
		for _, o := range w.sim.List(c.group(), c.Resource) {
			img := objStr(o, "spec", "image")
			if c.Kind == "ConfigMap" {
				img = objStr(o, "data", "image")
			}
			ri.Images[c.Resource+"/"+objStr(o, "metadata", "name")] = img
		}
	}
	return ri
}

func nsOfKey(key string) string {
	if i := strings.Index(key, "/"); i >= 0 {
		return key[:i]
	}
	return ""
}

// ownedAndDesired: names of children the parent controls (not pending deletion) and names the last hook answer desired.
func (sc *scenario) ownedAndDesired(lastLine vs.M) (owned, desired []string) {
	owned, desired, _, _, _ = sc.ownedAndDesiredObjs(lastLine)
	return
}

// ownedAndDesiredObjs also returns the objects themselves and the name of the last sync/finalize hook called ("" = none).
func (sc *scenario) ownedAndDesiredObjs(lastLine vs.M) (owned, desired []string, ownedObjs, desiredObjs []interface{}, lastHook string) {
	w := sc.w
	p := w.sim.GetObj(parentGroup, sc.Cfg.parentResource(), nsOfKey(sc.key), "p1")
	puid := objStr(p, "metadata", "uid")
	for _, c := range sc.Cfg.Children {
		for _, o := range w.sim.List(c.group(), c.Resource) {
			// a namespaced parent can only own objects of its own namespace (owner references do not cross namespaces,
			// and a cluster-scoped object cannot have a namespaced owner): look-alikes elsewhere are not "owned"
			if sc.Cfg.ParentNamespaced && objStr(o, "metadata", "namespace") != nsOfKey(sc.key) {
				continue
			}
			refs, _ := objMap(o, "metadata")["ownerReferences"].([]interface{})
			for _, r := range refs {
				if m, ok := r.(map[string]interface{}); ok && m["uid"] == puid && m["controller"] == true {
					owned = append(owned, c.Kind+"/"+objStr(o, "metadata", "name"))
					ownedObjs = append(ownedObjs, o)
				}
			}
		}
	}
	calls := lastLine["calls"].([]vs.LogEntry)
	for _, e := range calls {
		if e.Verb == "hook" && e.Hook != "customize" {
			lastHook = e.Hook
			if m, ok := e.HookResp.(map[string]interface{}); ok {
				desired = nil
				desiredObjs = nil
				if ch, ok := m["children"].([]interface{}); ok {
					for _, c := range ch {
						if cm, ok := c.(map[string]interface{}); ok {
							desired = append(desired, fmt.Sprint(cm["kind"])+"/"+objStr(cm, "metadata", "name"))
							desiredObjs = append(desiredObjs, cm)
						}
					}
				}
			}
		}
	}
	sort.Strings(owned)
	sort.Strings(desired)
	return
}

// round: (optionally fair environment), fresh caches, one sync.
func (sc *scenario) round(i int, seed uint64, n int, fair bool, out *vs.Out, mode string) (vs.M, roundInfo) {
	if fair {
		sc.fairEnv()
	}
	sc.w.fillCaches()
	line := sc.syncOnce(i, seed)
	line["scenario"] = mode
	line["round"] = n
	ri := sc.info(line)
	out.Line(line)
	return line, ri
}

func cleanParent(cfg scfg, replicas int, image string, mode string) vs.M {
	spec := vs.M{"replicas": int64(replicas), "image": image, "selector": vs.M{"matchLabels": vs.M{"app": "web"}}, "childLabels": vs.M{"app": "web"},
		"template": vs.M{"metadata": vs.M{"labels": vs.M{"app": "web"}}}}
	if mode != "" {
		spec["hookMode"] = mode
	}
	md := vs.M{"name": "p1", "labels": vs.M{}}
	if cfg.ParentNamespaced {
		md["namespace"] = "ns1"
	}
	if cfg.ParentSelector != nil {
		md["labels"] = vs.M{"managed": "yes"}
	}
	return vs.M{"apiVersion": parentGroup + "/v1", "kind": cfg.parentKind(), "metadata": md, "spec": spec}
}

// newCleanScenario: a world holding only the parent.
func newCleanScenario(cfg scfg, replicas int, image, hookMode string) *scenario {
	sc := &scenario{Cfg: cfg}
	sc.w = newWorld(cfg)
	sc.w.hook.Handler = scriptedHook(cfg)
	sc.w.sim.Put(parentGroup, cfg.parentResource(), cleanParent(cfg, replicas, image, hookMode))
	if cfg.ParentNamespaced {
		sc.key = "ns1/p1"
	} else {
		sc.key = "p1"
	}
	return sc
}

func rollingCfg(r *vs.Rand) scfg {
	cfg := scfg{Name: "cc", ParentNamespaced: !r.Chance(12), ParentHasStatus: true}
	c := allChildKinds[0] // widgets: has status
	if r.Chance(30) {
		c = allChildKinds[1]
	}
	c.Method = r.Pick([]string{"RollingInPlace", "RollingRecreate"})
	if c.HasStatus && r.Chance(70) {
		c.Checks = []vs.M{{"type": "Ready", "status": "True"}}
	}
	cfg.Children = []childSpec{c}
	cfg.GenerateSelector = r.Chance(25)
	cfg.Finalize = r.Chance(45)
	if r.Chance(40) {
		// custom revision-history paths; spec.extra is never set on these parents (an unrecorded earlier path)
		// ... or paths under two top-level fields, the second of which (metadata.annotations) only exists from the first change on
		cfg.FieldPaths = [][]string{{"spec.image"}, {"spec.extra", "spec.image"}, {"spec.image", "metadata.annotations"}, {"spec.image", "metadata.annotations"}}[r.Intn(4)]
	}
	return cfg
}

func (sc *scenario) setParentReplicas(n int) {
	sc.w.sim.Mutate(parentGroup, sc.Cfg.parentResource(), nsOfKey(sc.key), "p1", func(o map[string]interface{}) {
		o["spec"].(map[string]interface{})["replicas"] = int64(n)
	})
}

func (sc *scenario) setParentImage(image string) {
	sc.w.sim.Mutate(parentGroup, sc.Cfg.parentResource(), nsOfKey(sc.key), "p1", func(o map[string]interface{}) {
		o["spec"].(map[string]interface{})["image"] = image
		md := o["metadata"].(map[string]interface{})
		g, _ := md["generation"].(int64)
		md["generation"] = g + 1
		for _, fp := range sc.Cfg.FieldPaths {
			if fp == "metadata.annotations" {
				// the revisioned annotation appears with the first change: the first revision was recorded without it
				md["annotations"] = map[string]interface{}{"rev-note": image}
			}
		}
	})
}

// TestVerifRounds: VERIF_MODE selects the scenario family.
func TestVerifRounds(t *testing.T) {
	seed, n := vs.Params(200)
	out := vs.OpenOut()
	defer out.Close()
	mode := os.Getenv("VERIF_MODE")
	for i := 0; i < n; i++ {
		if !vs.Mine(i) {
			continue
		}
		r := vs.CaseRand(seed, i)
		switch mode {
		case "converge":
			runConverge(r, i, seed, out)
		case "rollout", "crash":
			runRollout(r, i, seed, out, mode == "crash")
		case "faults":
			runFaults(r, i, seed, out)
		case "malformed":
			runMalformed(r, i, seed, out)
		case "interleave":
			runInterleave(r, i, seed, out)
		}
	}
}

func runConverge(r *vs.Rand, i int, seed uint64, out *vs.Out) {
	cfg := genCfg(r, true)
	cfg.SSA = r.Chance(10)
	sc := buildScenario(r, cfg)
	defer sc.w.close()
	// is a desired name occupied by an object the parent cannot own? (excluded by the property)
	foreign, foreignKeys, deleting := foreignOccupants(sc)
	p := sc.w.sim.GetObj(parentGroup, cfg.parentResource(), nsOfKey(sc.key), "p1")
	// most scenarios are made admissible for the property by taking the foreign occupants away again
	if foreign && r.Chance(70) {
		for _, k := range foreignKeys {
			sc.w.sim.Remove(k[0], k[1], k[2], k[3])
		}
		foreign = false
	}
	// a third of the scenarios have a history: the parent's image changes twice (the children get a second and a third
	// generation), then somebody deletes the first child and puts a same-named, drifted object of generation 1 in its place
	// (not with a rolling strategy: a rollout started by each image change takes its own 2n+4 syncs - the rollout stream's subject)
	rolling := false
	for _, c := range cfg.Children {
		if c.Method == "RollingRecreate" || c.Method == "RollingInPlace" {
			rolling = true
		}
	}
	history := !foreign && !rolling && r.Chance(33)
	nRounds := 9
	if rolling {
		// a rollout moves one child per sync or two, and a sync can be lost to a conflict the controller causes itself
		// (an orphaned ControllerRevision is adopted, then written with the version the cache still holds)
		nRounds = 12
	}
	disturbed := []int{} // rounds before which somebody other than the controller changed something
	if history {
		nRounds = 13
		disturbed = []int{3, 5, 7}
	}
	var rounds []roundInfo
	var last vs.M
	for k := 0; k < nRounds; k++ {
		if history && (k == 3 || k == 5) {
			sc.setParentImage(fmt.Sprintf("v%d", k))
		}
		if c0 := cfg.Children[0]; history && k == 7 && (c0.Namespaced || !cfg.ParentNamespaced) {
			// (not for a cluster-scoped child kind under a namespaced parent: such objects carry a namespace in their body
			// that is not part of their key)
			c := cfg.Children[0]
			puid := objStr(p, "metadata", "uid")
			for _, o := range sc.w.sim.List(c.group(), c.Resource) {
				mine := false
				if refs, ok := o["metadata"].(map[string]interface{})["ownerReferences"].([]interface{}); ok {
					for _, rf := range refs {
						if m, ok := rf.(map[string]interface{}); ok && m["uid"] == puid {
							mine = true
						}
					}
				}
				if !mine || objStr(o, "metadata", "deletionTimestamp") != "" {
					continue
				}
				md := o["metadata"].(map[string]interface{})
				for _, f := range []string{"uid", "resourceVersion", "generation", "creationTimestamp"} {
					delete(md, f)
				}
				for _, part := range []string{"spec", "data"} {
					if m, ok := o[part].(map[string]interface{}); ok {
						if _, has := m["image"]; has {
							m["image"] = "drifted"
						}
					}
				}
				sc.w.sim.Remove(c.group(), c.Resource, objStr(o, "metadata", "namespace"), objStr(o, "metadata", "name"))
				sc.w.sim.Put(c.group(), c.Resource, o)
				break
			}
		}
		line, ri := sc.round(i, seed, k, true, out, "converge")
		rounds = append(rounds, ri)
		last = line
	}
	owned, desired, ownedObjs, desiredObjs, lastHook := sc.ownedAndDesiredObjs(last)
	out.Line(vs.M{"kind": "rounds", "mode": "converge", "case": i, "seed": seed, "cfg": cfg, "rounds": rounds,
		"foreign": foreign, "parentDeleting": deleting, "owned": owned, "desired": desired,
		"ownedObjs": ownedObjs, "desiredObjs": desiredObjs, "lastHook": lastHook, "ssa": cfg.SSA,
		"hookMode": objStr(p, "spec", "hookMode"), "replicas": objInt(p, "spec", "replicas"), "disturbed": disturbed})
}

func runRollout(r *vs.Rand, i int, seed uint64, out *vs.Out, crash bool) {
	cfg := rollingCfg(r)
	replicas := 1 + r.Intn(4)
	twoKeys := false // revision history over paths under two top-level fields: three revisions are to be alive at once
	for _, fp := range cfg.FieldPaths {
		if fp == "metadata.annotations" {
			twoKeys = true
		}
	}
	if twoKeys && replicas < 4 {
		replicas = 4
	}
	hookMode := ""
	if cfg.Finalize && r.Chance(75) {
		// the finalize answer depends on the (revisioned) image: true only for the newer images, or only for the oldest one
		hookMode = r.Pick([]string{"finalize-latest", "finalize-oldest"})
	}
	sc := newCleanScenario(cfg, replicas, "v1", hookMode)
	defer sc.w.close()
	revListDesc = r.Bool() // the order in which the lister hands out the revisions
	if cfg.GenerateSelector && r.Chance(50) {
		// with selector generation the children need no labels of their own: the hook returns them without any
		sc.w.sim.Mutate(parentGroup, cfg.parentResource(), nsOfKey(sc.key), "p1", func(o map[string]interface{}) {
			delete(o["spec"].(map[string]interface{}), "childLabels")
		})
	}
	if r.Chance(30) {
		// the hook lists a null entry first (or second) among the children: the hook order of the others is what counts
		at := int64(r.Intn(2))
		sc.w.sim.Mutate(parentGroup, cfg.parentResource(), nsOfKey(sc.key), "p1", func(o map[string]interface{}) {
			o["spec"].(map[string]interface{})["nullAt"] = at
		})
	}
	var rounds []roundInfo
	k := 0
	for ; k < replicas+4; k++ {
		_, ri := sc.round(i, seed, k, true, out, "rollout-init")
		rounds = append(rounds, ri)
	}
	changeAt := k
	sc.setParentImage("v2")
	final := "v2"
	finalReplicas := replicas
	second := -1
	if r.Chance(50) {
		second = changeAt + 1 + r.Intn(2*replicas+1)
	}
	if twoKeys {
		// when the second revision holds two children and the first one still some: the first pending child leaves the second
		// revision for the third, and three revisions stay alive
		second = changeAt + 2 + r.Intn(2)
	}
	scaleTo := -1
	if r.Chance(35) {
		// the spec change also changes the number of children (scale down or up by one)
		scaleTo = replicas - 1 + 2*r.Intn(2)
		if scaleTo < 1 {
			scaleTo = 1
		}
	}
	lagRound := -1
	if r.Chance(40) {
		lagRound = changeAt + 1 + r.Intn(replicas+1)
	}
	if r.Chance(35) {
		sc.ogMode = 1 + r.Intn(2)
	}
	vanishRound := -1
	if replicas >= 2 && r.Chance(30) {
		vanishRound = changeAt + 1 + r.Intn(replicas)
	}
	sickRound, sickKind := -1, 0
	if r.Chance(60) {
		// after the first child has moved, while others are still waiting for their turn
		sickRound = changeAt + 2 + r.Intn(replicas)
		sickKind = 1 + r.Intn(3)
	}
	cutRound, cutK := -1, -1
	faultRound, faultKind := -1, [2]string{}
	if crash {
		cutRound = changeAt + r.Intn(2*replicas+2)
		cutK = r.Intn(14)
		if r.Chance(60) {
			// instead of a crash: one request of that sync is answered with an error
			faultRound, cutRound = cutRound, -1
			faultKind = faultKinds[r.Intn(len(faultKinds))]
		}
	}
	// sometimes the parent is deleted in the middle of the rollout (finalize hook configured): the finalize answers of
	// the live parent revisions then differ ("finalize-latest" hook mode)
	deleteAt := -1
	if !crash && cfg.Finalize && r.Chance(60) {
		deleteAt = changeAt + 1 + r.Intn(replicas+1)
	}
	limit := changeAt + 4*replicas + 10
	for ; k < limit; k++ {
		if k == second {
			sc.setParentImage("v3")
			final = "v3"
			if scaleTo > 0 {
				sc.setParentReplicas(scaleTo)
				finalReplicas = scaleTo
			}
		}
		// one round in which the children's own controllers lag: the status checks still pass (stale conditions),
		// but status.observedGeneration is behind metadata.generation
		sc.lag = k == lagRound
		sc.sick = 0
		if k == sickRound {
			sc.sick = sickKind
		}
		if k == cutRound {
			sc.w.sim.CutAfter = cutK
		}
		if k == faultRound {
			if cutK%3 != 0 {
				// aimed at the intent records: the first ControllerRevision write of this sync - whatever its verb - fails
				// (409 = AlreadyExists for a create, Conflict otherwise), or the first write of one particular verb
				aimed := []vs.Fault{
					{Verb: "write", Code: 409}, {Verb: "write", Code: 409}, {Verb: "write", Code: 500, Reason: "InternalError"}, {Verb: "write", Code: 404, Reason: "NotFound"},
					{Verb: "update", Code: 409, Reason: "Conflict"}, {Verb: "update", Code: 500, Reason: "InternalError"},
					{Verb: "create", Code: 409, Reason: "AlreadyExists"}, {Verb: "delete", Code: 409, Reason: "Conflict"},
				}
				f := aimed[(cutK+int(seed))%len(aimed)]
				f.Resource, f.Nth = "controllerrevisions", 1
				sc.w.sim.Faults = []*vs.Fault{&f}
			} else {
				sc.w.sim.FaultAt = map[int][2]string{cutK: faultKind}
			}
		}
		if k == vanishRound {
			// somebody deletes the last child, which is usually still waiting for its turn at the old revision:
			// it has to come back as that revision wants it
			c := cfg.Children[0]
			cns := ""
			if c.Namespaced {
				cns = "ns1"
			}
			sc.w.sim.Remove(c.group(), c.Resource, cns, fmt.Sprintf("p1-%d", replicas-1))
		}
		if k == deleteAt {
			sc.w.sim.Mutate(parentGroup, cfg.parentResource(), nsOfKey(sc.key), "p1", func(o map[string]interface{}) {
				o["metadata"].(map[string]interface{})["deletionTimestamp"] = "2024-01-03T00:00:00Z"
			})
		}
		_, ri := sc.round(i, seed, k, true, out, "rollout")
		sc.w.sim.FaultAt = nil
		sc.w.sim.Faults = nil
		if k == cutRound {
			sc.w.sim.CutAfter = -1
			// the process dies here: what it kept in memory is gone
			common.VerifMemoReset()
		}
		rounds = append(rounds, ri)
	}
	out.Line(vs.M{"kind": "rounds", "mode": map[bool]string{false: "rollout", true: "crash"}[crash], "case": i, "seed": seed, "cfg": cfg, "rounds": rounds,
		"replicas": finalReplicas, "changeAt": changeAt, "secondChangeAt": second, "finalImage": final, "cutRound": cutRound, "cutK": cutK, "faultRound": faultRound, "deleteAt": deleteAt})
}

// foreignOccupants: objects under the names the hook uses (p1-*) that the parent cannot own - controlled by somebody else,
// not matching its selector, in another namespace, or pending deletion. Convergence to the hook's desired children is
// only claimed when no such object occupies a desired name.
func foreignOccupants(sc *scenario) (bool, [][4]string, bool) {
	cfg := sc.Cfg
	foreign := false
	var foreignKeys [][4]string
	p := sc.w.sim.GetObj(parentGroup, cfg.parentResource(), nsOfKey(sc.key), "p1")
	puid := objStr(p, "metadata", "uid")
	deleting := objStr(p, "metadata", "deletionTimestamp") != ""
	for _, c := range cfg.Children {
		for _, o := range sc.w.sim.List(c.group(), c.Resource) {
			if !strings.HasPrefix(objStr(o, "metadata", "name"), "p1-") {
				continue
			}
			mine := false
			refs, _ := objMap(o, "metadata")["ownerReferences"].([]interface{})
			hasController := false
			for _, rf := range refs {
				if m, ok := rf.(map[string]interface{}); ok && m["controller"] == true {
					hasController = true
					mine = m["uid"] == puid
				}
			}
			lbl := objMap(o, "metadata", "labels")
			sel := objMap(p, "spec", "selector", "matchLabels")
			matches := true
			for k, v := range sel {
				if lbl[k] != v {
					matches = false
				}
			}
			if cfg.GenerateSelector {
				matches = lbl["controller-uid"] == puid
			}
			if (hasController && !mine) || !matches || objStr(o, "metadata", "namespace") == "ns2" || objStr(o, "metadata", "deletionTimestamp") != "" {
				foreign = true
				foreignKeys = append(foreignKeys, [4]string{c.group(), c.Resource, objStr(o, "metadata", "namespace"), objStr(o, "metadata", "name")})
			}
		}
	}
	return foreign, foreignKeys, deleting
}

var faultKinds = [][2]string{{"404", "NotFound"}, {"409", "Conflict"}, {"410", "Gone"}, {"422", "Invalid"}, {"500", "InternalError"}, {"504", "Timeout"}, {"409", "AlreadyExists"}}

func runFaults(r *vs.Rand, i int, seed uint64, out *vs.Out) {
	// the same scenario twice: with one injected fault, and fault-free
	cfgRand := vs.CaseRand(seed, i)
	cfg := genCfg(cfgRand, false)
	cfg.SSA = false
	cfg.Customize = false
	cfg.Related = nil
	foreign := false
	// the faulty run ended with the parent pending deletion and no longer carrying the controller's finalizer: from then on
	// nothing is reconciled for it (the dying-parent guard of C10), whatever the fault left behind
	// now and then the hook is down for seventeen syncs in a row (a parent that keeps failing must keep being retried)
	hookDownRounds := 0
	nRounds := 9
	if r.Chance(8) {
		hookDownRounds, nRounds = 17, 24
	}
	released := false
	// ... or alive, outside the parent selector and no longer carrying the finalizer (finalize on deselect): the controller
	// ignores such a parent, so whatever the sync that removed the finalizer could not finish is never retried (F-C12-1)
	abandoned := false
	run := func(fault bool) ([]roundInfo, []interface{}) {
		rr := vs.CaseRand(seed+7777, i)
		sc := buildScenario(rr, cfg)
		defer sc.w.close()
		deselect := false
		if cfg.Finalize && rr.Chance(25) {
			// a parent that is being finalized right now: pending deletion, still carrying the controller's finalizer, and a
			// finalize hook that says "done" - so the finalizer removal (a read-modify-write of the parent) happens in this sync
			finName := "metacontroller.io/compositecontroller-" + cfg.Name
			// ... or, for a controller with a parent selector, alive but relabelled out of the selector ("finalize on deselect")
			deselect = cfg.ParentSelector != nil && rr.Chance(40)
			sc.w.sim.Mutate(parentGroup, cfg.parentResource(), nsOfKey(sc.key), "p1", func(o map[string]interface{}) {
				md := o["metadata"].(map[string]interface{})
				if deselect {
					delete(md, "deletionTimestamp")
					md["labels"] = map[string]interface{}{}
				} else if _, ok := md["deletionTimestamp"]; !ok {
					md["deletionTimestamp"] = "2024-01-01T00:00:09Z"
				}
				fs, _ := md["finalizers"].([]interface{})
				var keep []interface{}
				for _, f := range fs {
					if f != finName && f != "foregroundDeletion" && f != "orphan" {
						keep = append(keep, f)
					}
				}
				md["finalizers"] = append(keep, finName)
				o["spec"].(map[string]interface{})["hookMode"] = "finalize-now"
			})
		}
		var fk [][4]string
		foreign, fk, _ = foreignOccupants(sc)
		if foreign && rr.Chance(70) {
			// most scenarios are made admissible by taking the foreign occupants away (the same draw in both runs)
			for _, k := range fk {
				sc.w.sim.Remove(k[0], k[1], k[2], k[3])
			}
			foreign = false
		}
		var rounds []roundInfo
		if fault {
			if deselect && r.Chance(60) {
				// the requests that follow the finalizer removal of a deselected parent: the status write and the child deletions
				after := []vs.Fault{
					{Verb: "updateStatus", Resource: cfg.parentResource(), Code: 500, Reason: "InternalError", Nth: 1},
					{Verb: "updateStatus", Resource: cfg.parentResource(), Code: 404, Reason: "NotFound", Nth: 1},
					{Verb: "delete", Code: 500, Reason: "InternalError", Nth: 1},
				}
				f := after[r.Intn(len(after))]
				sc.w.sim.Faults = []*vs.Fault{&f}
			} else if r.Chance(30) {
				// a persistent fault during the first sync: every request of one class fails (e.g. an outside writer
				// that keeps winning the race, so that every retry of a read-modify-write conflicts)
				classes := []vs.Fault{
					{Verb: "update", Resource: cfg.parentResource(), Code: 409, Reason: "Conflict", Always: true},
					{Verb: "updateStatus", Resource: cfg.parentResource(), Code: 409, Reason: "Conflict", Always: true},
					{Verb: "update", Code: 409, Reason: "Conflict", Always: true},
					{Verb: "delete", Code: 409, Reason: "Conflict", Always: true},
					{Verb: "create", Code: 500, Reason: "InternalError", Always: true},
					{Verb: "get", Resource: cfg.parentResource(), Code: 500, Reason: "InternalError", Always: true},
					{Verb: "delete", Code: 500, Reason: "InternalError", Always: true},
				}
				// the read-modify-write of the parent (finalizer add / remove) is the one whose exhausted retries matter most
				f := classes[[]int{0, 0, 0, 1, 2, 3, 4, 5, 6}[r.Intn(9)]]
				sc.w.sim.Faults = []*vs.Fault{&f}
			} else if r.Chance(30) {
				// one request about the parent itself fails once: the first or second write, or a live read
				aimed := []vs.Fault{
					{Verb: "update", Code: 404, Reason: "NotFound", Nth: 1}, {Verb: "update", Code: 404, Reason: "NotFound", Nth: 2},
					{Verb: "update", Code: 500, Reason: "InternalError", Nth: 1}, {Verb: "update", Code: 409, Reason: "Conflict", Nth: 2},
					{Verb: "get", Code: 404, Reason: "NotFound", Nth: 1}, {Verb: "get", Code: 404, Reason: "NotFound", Nth: 2}, {Verb: "get", Code: 404, Reason: "NotFound", Nth: 3},
					{Verb: "updateStatus", Code: 404, Reason: "NotFound", Nth: 1}, {Verb: "updateStatus", Code: 500, Reason: "InternalError", Nth: 1},
				}
				f := aimed[r.Intn(len(aimed))]
				f.Resource = cfg.parentResource()
				sc.w.sim.Faults = []*vs.Fault{&f}
			} else {
				pos := r.Intn(10)
				fk := faultKinds[r.Intn(len(faultKinds))]
				sc.w.sim.FaultAt = map[int][2]string{pos: fk}
			}
		}
		origHandler := sc.w.hook.Handler
		for k := 0; k < nRounds; k++ {
			var ri roundInfo
			if fault && k < hookDownRounds {
				sc.w.hook.Handler = func(name string, req map[string]interface{}) vs.HookAnswer {
					return vs.HookAnswer{Code: 500, Body: []byte("hook is down")}
				}
			} else {
				sc.w.hook.Handler = origHandler
			}
			if fault {
				_, ri = sc.round(i, seed, k, true, out, "faults")
			} else {
				// twin run: not written as sync lines (it is the reference)
				sc.fairEnv()
				sc.w.fillCaches()
				line := sc.syncOnce(i, seed)
				ri = sc.info(line)
			}
			sc.w.sim.FaultAt = nil
			sc.w.sim.Faults = nil
			rounds = append(rounds, ri)
		}
		if fault {
			if p := sc.w.sim.GetObj(parentGroup, cfg.parentResource(), nsOfKey(sc.key), "p1"); p != nil {
				md := p["metadata"].(map[string]interface{})
				has := false
				fs, _ := md["finalizers"].([]interface{})
				for _, f := range fs {
					if f == "metacontroller.io/compositecontroller-"+cfg.Name {
						has = true
					}
				}
				_, del := md["deletionTimestamp"]
				released = del && !has
				lbl, _ := md["labels"].(map[string]interface{})
				abandoned = !del && !has && cfg.ParentSelector != nil && lbl["managed"] != "yes"
			}
		}
		return rounds, project(sc.w.sim.Snapshot())
	}
	fr, fstore := run(true)
	tr, tstore := run(false)
	if os.Getenv("VERIF_DUMP") != "" {
		fmt.Fprintf(os.Stderr, "FAULTY %s\nTWIN %s\n", vs.MustJSON(fstore), vs.MustJSON(tstore))
	}
	out.Line(vs.M{"kind": "rounds", "mode": "faults", "case": i, "seed": seed, "cfg": cfg, "rounds": fr, "twinRounds": tr,
		"finalEqualsTwin": vs.MustJSON(fstore) == vs.MustJSON(tstore), "finalDigest": digest(fstore), "twinDigest": digest(tstore), "foreign": foreign, "released": released, "abandoned": abandoned})
}

var jsonTypes = []interface{}{nil, true, int64(0), int64(-3), int64(1) << 62, "str", []interface{}{}, []interface{}{nil}, map[string]interface{}{}, []interface{}{int64(1)}, map[string]interface{}{"x": int64(1)}}

// mutateAt replaces the value at a random path of v by a value of a random JSON type.
func mutateAt(r *vs.Rand, v interface{}, depth int) interface{} {
	switch t := v.(type) {
	case map[string]interface{}:
		if len(t) == 0 || r.Chance(15) || depth > 5 {
			return jsonTypes[r.Intn(len(jsonTypes))]
		}
		keys := make([]string, 0, len(t))
		for k := range t {
			keys = append(keys, k)
		}
		sort.Strings(keys)
		k := keys[r.Intn(len(keys))]
		if r.Chance(8) {
			delete(t, k)
			return t
		}
		t[k] = mutateAt(r, t[k], depth+1)
		return t
	case []interface{}:
		if len(t) == 0 || r.Chance(20) {
			return jsonTypes[r.Intn(len(jsonTypes))]
		}
		j := r.Intn(len(t))
		t[j] = mutateAt(r, t[j], depth+1)
		return t
	default:
		return jsonTypes[r.Intn(len(jsonTypes))]
	}
}

func runMalformed(r *vs.Rand, i int, seed uint64, out *vs.Out) {
	cfg := genCfg(r, true)
	sc := buildScenario(r, cfg)
	defer sc.w.close()
	base := scriptedHook(cfg)
	mr := vs.CaseRand(seed+99, i)
	target := "sync"
	if cfg.Customize && mr.Chance(30) {
		target = "customize"
	}
	// sometimes the malformation is a null element inside a name-keyed list of the children: legal JSON that the 3-way merge
	// meets only when the child already has that list, so a first sync applies the list without the null
	withPorts := func(ans vs.HookAnswer, withNull bool) vs.HookAnswer {
		var v map[string]interface{}
		dec := json.NewDecoder(strings.NewReader(string(ans.Body)))
		dec.UseNumber()
		if dec.Decode(&v) != nil || v == nil {
			return ans
		}
		cs, _ := v["children"].([]interface{})
		for _, c := range cs {
			cm, ok := c.(map[string]interface{})
			if !ok {
				continue
			}
			lst := []interface{}{map[string]interface{}{"name": "http", "port": int64(80)}, map[string]interface{}{"name": "https", "port": int64(443)}}
			if withNull {
				lst = []interface{}{lst[0], nil, lst[1]}
			}
			if sp, ok := cm["spec"].(map[string]interface{}); ok {
				sp["ports"] = lst
			} else {
				cm["ports"] = lst
			}
		}
		b, _ := json.Marshal(v)
		return vs.HookAnswer{Code: ans.Code, Headers: ans.Headers, Body: b}
	}
	if cfg.Customize && mr.Chance(20) {
		// the customize hook fails once (500, or an undecodable body), then recovers: the next sync must ask it again and
		// hand the sync hook the related objects its answer selects
		bad := vs.HookAnswer{Code: 500, Body: []byte("boom")}
		if mr.Bool() {
			bad = vs.HookAnswer{Code: 200, Body: []byte(`{"relatedResources": [`)}
		}
		sc.w.hook.Handler = func(name string, req map[string]interface{}) vs.HookAnswer {
			if name == "customize" {
				return bad
			}
			return base(name, req)
		}
		first := sc.syncOnce(i, seed)
		first["scenario"] = "malformed"
		out.Line(first)
		sc.w.hook.Handler = base
		sc.w.fillCaches()
		line := sc.syncOnce(i, seed)
		line["scenario"] = "malformed"
		out.Line(line)
		return
	}
	if target == "sync" && mr.Chance(12) {
		sc.w.hook.Handler = func(name string, req map[string]interface{}) vs.HookAnswer {
			ans := base(name, req)
			if name == "customize" {
				return ans
			}
			return withPorts(ans, false)
		}
		first := sc.syncOnce(i, seed)
		first["scenario"] = "malformed"
		out.Line(first)
		sc.fairEnv()
		sc.w.fillCaches()
		sc.w.hook.Handler = func(name string, req map[string]interface{}) vs.HookAnswer {
			ans := base(name, req)
			if name == "customize" {
				return ans
			}
			return withPorts(ans, true)
		}
		line := sc.syncOnce(i, seed)
		line["scenario"] = "malformed"
		out.Line(line)
		return
	}
	sc.w.hook.Handler = func(name string, req map[string]interface{}) vs.HookAnswer {
		ans := base(name, req)
		if name != target && !(target == "sync" && name == "finalize") {
			return ans
		}
		switch mr.Intn(12) {
		case 0:
			return vs.HookAnswer{Code: 500, Body: []byte("boom")}
		case 1:
			return vs.HookAnswer{Code: 429, Headers: map[string]string{"Retry-After": fmt.Sprint(mr.Intn(30))}, Body: []byte("{}")}
		case 2:
			return vs.HookAnswer{Code: 200, Body: []byte(`{"children": [`)}
		case 3:
			return vs.HookAnswer{Code: 200, Body: []byte(`[1,2]`)}
		case 4:
			return vs.HookAnswer{Code: 200, Body: []byte(`null`)}
		case 5:
			return vs.HookAnswer{Code: []int{201, 204, 302, 404}[mr.Intn(4)], Body: ans.Body}
		default:
			var v interface{}
			dec := json.NewDecoder(strings.NewReader(string(ans.Body)))
			dec.UseNumber()
			_ = dec.Decode(&v)
			v = mutateAt(mr, v, 0)
			dropScalarLastApplied(v)
			b, _ := json.Marshal(v)
			return vs.HookAnswer{Code: 200, Body: b}
		}
	}
	line := sc.syncOnce(i, seed)
	line["scenario"] = "malformed"
	out.Line(line)
}

// dropScalarLastApplied: a desired child that sets the last-applied annotation itself to a string, number or boolean is
// outside what the trace format can carry: the model is handed observed objects with that one annotation decoded (an
// object), the implementation holds it as a string, and a scalar desired value replaces a string but clashes with an object.
// (An API server rejects non-string annotation values anyway.) Such a key is taken out of the mutated answer again.
func dropScalarLastApplied(v interface{}) {
	m, ok := v.(map[string]interface{})
	if !ok {
		return
	}
	kids, _ := m["children"].([]interface{})
	for _, k := range kids {
		km, ok := k.(map[string]interface{})
		if !ok {
			continue
		}
		md, ok := km["metadata"].(map[string]interface{})
		if !ok {
			continue
		}
		ann, ok := md["annotations"].(map[string]interface{})
		if !ok {
			continue
		}
		const la = "metacontroller.k8s.io/last-applied-configuration"
		switch t := ann[la].(type) {
		case string:
			var rec map[string]interface{}
			if json.Unmarshal([]byte(t), &rec) != nil { // an echoed record (JSON text of an object) stays
				delete(ann, la)
			}
		case json.Number, int64, float64, bool:
			delete(ann, la)
		}
	}
}

func runInterleave(r *vs.Rand, i int, seed uint64, out *vs.Out) {
	// Rolling strategies in this stream (genCfg(r, r.Chance(30))) were tried and withdrawn: with an outside spec edit and claims of
	// a kind that no longer rolls, the model updated a ControllerRevision the implementation pruned (seed 48, unchanged tree) -
	// a difference of the model that was not resolved; see DESIGN 8.5.
	cfg := genCfg(r, false)
	cfg.SSA = false
	sc := buildScenario(r, cfg)
	defer sc.w.close()
	w := sc.w
	// sometimes the controller has already settled this parent: the cached parent then carries the very status the hook
	// returns, and an outside edit of the live status is only noticed by the live read of the status update
	if r.Chance(30) {
		w.fillCaches()
		first := sc.syncOnce(i, seed)
		first["scenario"] = "interleave"
		out.Line(first)
	}
	// candidates: children named p1-*
	type ref struct {
		c        childSpec
		ns, name string
	}
	var kids []ref
	for _, c := range cfg.Children {
		for _, o := range w.sim.List(c.group(), c.Resource) {
			kids = append(kids, ref{c, objStr(o, "metadata", "namespace"), objStr(o, "metadata", "name")})
		}
	}
	other := w.sim.GetObj(parentGroup, cfg.parentResource(), nsOfKey(sc.key), "p2")
	// orphans (no owner reference at all): the candidates of an adoption, which races with other adopters
	var orphans []ref
	for _, k := range kids {
		if o := w.sim.GetObj(k.c.group(), k.c.Resource, k.ns, k.name); o != nil {
			if refs, _ := o["metadata"].(map[string]interface{})["ownerReferences"].([]interface{}); len(refs) == 0 {
				orphans = append(orphans, k)
			}
		}
	}
	var doAct func(s *vs.Sim, k ref, choice int)
	act := func(s *vs.Sim) {
		if len(kids) == 0 {
			return
		}
		k := kids[r.Intn(len(kids))]
		choice := r.Intn(11)
		if r.Chance(10) {
			choice = 12
		}
		if len(orphans) > 0 && r.Chance(35) {
			// aimed at an adoption: the orphan is taken by the other parent, deleted, replaced or relabelled meanwhile
			k = orphans[r.Intn(len(orphans))]
			choice = []int{2, 2, 0, 1, 3, 11}[r.Intn(6)]
		}
		doAct(s, k, choice)
	}
	doAct = func(s *vs.Sim, k ref, choice int) {
		switch choice {
		case 11: // deleted and replaced under the same name by an object that does not match the parent's selector (new UID)
			o := s.GetObj(k.c.group(), k.c.Resource, k.ns, k.name)
			if o != nil {
				s.Remove(k.c.group(), k.c.Resource, k.ns, k.name)
				md := o["metadata"].(map[string]interface{})
				delete(md, "uid")
				delete(md, "ownerReferences")
				md["labels"] = map[string]interface{}{"app": "nomatch"}
				s.Put(k.c.group(), k.c.Resource, o)
			}
		case 12: // somebody else strips the controller's own finalizer from the live parent (or puts it there): what the sync holds is stale
			fin := "metacontroller.io/compositecontroller-" + cfg.Name
			s.Mutate(parentGroup, cfg.parentResource(), nsOfKey(sc.key), "p1", func(o map[string]interface{}) {
				md := o["metadata"].(map[string]interface{})
				fs, _ := md["finalizers"].([]interface{})
				var out []interface{}
				had := false
				for _, f := range fs {
					if f == fin {
						had = true
						continue
					}
					out = append(out, f)
				}
				if !had {
					out = append(out, fin)
				}
				if _, del := md["deletionTimestamp"]; del && len(out) == 0 {
					out = append(out, "example.com/blocker") // a parent pending deletion stays only while some finalizer holds it
				}
				if len(out) == 0 {
					delete(md, "finalizers")
				} else {
					md["finalizers"] = out
				}
			})
		case 10: // somebody else adds or removes a finalizer of their own on the parent
			s.Mutate(parentGroup, cfg.parentResource(), nsOfKey(sc.key), "p1", func(o map[string]interface{}) {
				md := o["metadata"].(map[string]interface{})
				fs, _ := md["finalizers"].([]interface{})
				var out []interface{}
				had := false
				for _, f := range fs {
					if f == "example.com/other" {
						had = true
						continue
					}
					out = append(out, f)
				}
				if !had {
					out = append(out, "example.com/other")
				}
				if len(out) == 0 {
					delete(md, "finalizers")
				} else {
					md["finalizers"] = out
				}
			})
		case 9: // somebody else overwrites the parent's status
			s.Mutate(parentGroup, cfg.parentResource(), nsOfKey(sc.key), "p1", func(o map[string]interface{}) {
				o["status"] = map[string]interface{}{"replicas": int64(99), "observedGeneration": int64(1)}
			})
		case 8: // the parent's spec is edited (generation moves on): the cached parent is one generation behind
			s.Mutate(parentGroup, cfg.parentResource(), nsOfKey(sc.key), "p1", func(o map[string]interface{}) {
				md := o["metadata"].(map[string]interface{})
				g, _ := md["generation"].(int64)
				md["generation"] = g + 1
				if sp, ok := o["spec"].(map[string]interface{}); ok {
					sp["note"] = "edited"
				}
			})
		case 6: // another (non-controller) owner reference is added by someone else
			s.Mutate(k.c.group(), k.c.Resource, k.ns, k.name, func(o map[string]interface{}) {
				md := o["metadata"].(map[string]interface{})
				refs, _ := md["ownerReferences"].([]interface{})
				md["ownerReferences"] = append(refs, vs.M{"apiVersion": "v1", "kind": "ConfigMap", "name": "extra-owner", "uid": "uid-extra-owner"})
			})
		case 7: // a label is added by someone else (selector match unchanged)
			s.Mutate(k.c.group(), k.c.Resource, k.ns, k.name, func(o map[string]interface{}) {
				md := o["metadata"].(map[string]interface{})
				lbl, _ := md["labels"].(map[string]interface{})
				if lbl == nil {
					lbl = map[string]interface{}{}
				}
				lbl["touched"] = "yes"
				md["labels"] = lbl
			})
		case 0: // deleted by someone else
			s.Remove(k.c.group(), k.c.Resource, k.ns, k.name)
		case 1: // deleted and recreated under the same name (new UID), owned by nobody
			o := s.GetObj(k.c.group(), k.c.Resource, k.ns, k.name)
			if o != nil {
				s.Remove(k.c.group(), k.c.Resource, k.ns, k.name)
				md := o["metadata"].(map[string]interface{})
				delete(md, "uid")
				delete(md, "ownerReferences")
				s.Put(k.c.group(), k.c.Resource, o)
			}
		case 2: // ownership edit: now controlled by the other parent
			s.Mutate(k.c.group(), k.c.Resource, k.ns, k.name, func(o map[string]interface{}) {
				o["metadata"].(map[string]interface{})["ownerReferences"] = []interface{}{ownerRef(other, true)}
			})
		case 3: // relabelled: no longer matching
			s.Mutate(k.c.group(), k.c.Resource, k.ns, k.name, func(o map[string]interface{}) {
				o["metadata"].(map[string]interface{})["labels"] = map[string]interface{}{"app": "nomatch"}
			})
		case 4: // the parent starts being deleted
			s.Mutate(parentGroup, cfg.parentResource(), nsOfKey(sc.key), "p1", func(o map[string]interface{}) {
				md := o["metadata"].(map[string]interface{})
				md["deletionTimestamp"] = "2024-01-01T01:00:00Z"
				f, _ := md["finalizers"].([]interface{})
				md["finalizers"] = append(f, "example.com/blocker")
			})
		case 5: // the parent is deleted and recreated (new UID)
			o := s.GetObj(parentGroup, cfg.parentResource(), nsOfKey(sc.key), "p1")
			if o != nil {
				s.Remove(parentGroup, cfg.parentResource(), nsOfKey(sc.key), "p1")
				delete(o["metadata"].(map[string]interface{}), "uid")
				s.Put(parentGroup, cfg.parentResource(), o)
			}
		}
	}
	// stale cache = the action happens after the caches were filled; interleaving = at request index k
	w.fillCaches()
	if len(orphans) > 0 && r.Chance(25) {
		// between the live read and the write of one orphan's adoption: it is handed to the other parent, deleted, replaced
		// (matching or not) or relabelled exactly then
		k := orphans[r.Intn(len(orphans))]
		choice := []int{2, 0, 1, 1, 3, 11, 11}[r.Intn(7)]
		w.sim.EnvBefore = append(w.sim.EnvBefore, &vs.EnvTrigger{Verb: "update", Resource: k.c.Resource, Name: k.name, F: func(s *vs.Sim) { doAct(s, k, choice) }})
	}
	// an orphaned ControllerRevision is handed to the other parent after the cache was filled, or between the live read and
	// the write of its adoption
	for _, o := range w.sim.List(revGroup, "controllerrevisions") {
		if refs, _ := o["metadata"].(map[string]interface{})["ownerReferences"].([]interface{}); len(refs) > 0 || other == nil {
			continue
		}
		if !r.Chance(60) {
			break
		}
		rns, rname := objStr(o, "metadata", "namespace"), objStr(o, "metadata", "name")
		give := func(s *vs.Sim) {
			s.Mutate(revGroup, "controllerrevisions", rns, rname, func(x map[string]interface{}) {
				x["metadata"].(map[string]interface{})["ownerReferences"] = []interface{}{ownerRef(other, true)}
			})
		}
		if r.Bool() {
			give(w.sim)
		} else {
			w.sim.EnvBefore = append(w.sim.EnvBefore, &vs.EnvTrigger{Verb: "update", Resource: "controllerrevisions", Name: rname, F: give})
		}
		break
	}
	na := 1 + r.Intn(2)
	for j := 0; j < na; j++ {
		if r.Chance(35) {
			act(w.sim) // before the sync starts: a stale cache
		} else {
			// mostly early in the sync: between the live reads and the writes of the claim phase
			w.sim.Env[[]int{0, 1, 1, 2, 2, 2, 3, 3, 4, 5, 6, 8}[r.Intn(12)]] = act
		}
	}
	w.sim.ResetLog()
	storeBefore := w.sim.Snapshot()
	cacheBefore := w.cacheDump()
	sc.revNameBefore = sc.revName()
	sc.memoBefore = w.memoDump()
	sc.custBefore = w.customizeCached("p1")
	sc.custExpected = w.customizeExpected("p1")
	outcome, detail := w.runSync(sc.key)
	w.noteApplies()
	line := sc.traceLine(i, seed, storeBefore, cacheBefore, outcome, detail)
	line["scenario"] = "interleave"
	out.Line(line)
	_ = unstructured.Unstructured{}
}
