package composite

// Verification harness (injected with go test -overlay; not part of /repo).
// Builds a real parentController by hand over the simulated API server, static caches and an
// in-process webhook, and runs single syncs through processNextWorkItem.

import (
	"encoding/json"
	"fmt"
	"sort"
	"strconv"
	"strings"

	"github.com/go-logr/logr"
	metav1 "k8s.io/apimachinery/pkg/apis/meta/v1"
	"k8s.io/apimachinery/pkg/apis/meta/v1/unstructured"
	"k8s.io/apimachinery/pkg/labels"
	"k8s.io/apimachinery/pkg/runtime"
	"k8s.io/apimachinery/pkg/runtime/schema"
	"k8s.io/client-go/rest"
	"k8s.io/client-go/tools/cache"
	"k8s.io/client-go/tools/record"

	"metacontroller/pkg/apis/metacontroller/v1alpha1"
	mcclientset "metacontroller/pkg/client/generated/clientset/internalclientset"
	mclisters "metacontroller/pkg/client/generated/lister/metacontroller/v1alpha1"
	"metacontroller/pkg/controller/common"
	"metacontroller/pkg/controller/common/customize"
	"metacontroller/pkg/controller/common/finalizer"
	dynamicclientset "metacontroller/pkg/dynamic/clientset"
	dynamicdiscovery "metacontroller/pkg/dynamic/discovery"
	dynamicinformer "metacontroller/pkg/dynamic/informer"
	"metacontroller/pkg/hooks"
	vs "metacontroller/pkg/internal/verifsim"
)

const (
	parentGroup = "ctl.example.com"
	revGroup    = "metacontroller.k8s.io"
)

// childSpec describes one child resource of a scenario.
type childSpec struct {
	APIVersion string `json:"apiVersion"`
	Resource   string `json:"resource"`
	Kind       string `json:"kind"`
	Namespaced bool   `json:"namespaced"`
	HasStatus  bool   `json:"hasStatus"`
	Method     string `json:"method"` // "" = no updateStrategy at all
	Checks     []vs.M `json:"checks,omitempty"`
}

func (c childSpec) group() string   { g, _ := common.ParseAPIVersion(c.APIVersion); return g }
func (c childSpec) version() string { _, v := common.ParseAPIVersion(c.APIVersion); return v }

// scfg is the controller configuration of a scenario (also written to the trace).
type scfg struct {
	Name             string      `json:"name"`
	ParentNamespaced bool        `json:"parentNamespaced"`
	ParentHasStatus  bool        `json:"parentHasStatus"`
	Children         []childSpec `json:"children"`
	GenerateSelector bool        `json:"generateSelector"`
	ParentSelector   vs.M        `json:"parentSelector,omitempty"` // cc.spec.parentResource.labelSelector
	Finalize         bool        `json:"finalize"`
	Customize        bool        `json:"customize"`
	SSA              bool        `json:"ssa"`
	FieldPaths       []string    `json:"fieldPaths,omitempty"`
	Related          []childSpec `json:"related,omitempty"`
	// cc.spec.parentResource.ignoreStatusChanges
	IgnoreStatusChanges bool `json:"ignoreStatusChanges,omitempty"`
}

var allChildKinds = []childSpec{
	{APIVersion: "example.com/v1", Resource: "widgets", Kind: "Widget", Namespaced: true, HasStatus: true},
	{APIVersion: "v1", Resource: "configmaps", Kind: "ConfigMap", Namespaced: true},
	{APIVersion: "example.com/v1", Resource: "globals", Kind: "Global", Namespaced: false},
}

type world struct {
	cfg       scfg
	sim       *vs.Sim
	hook      *vs.HookServer
	pc        *parentController
	q         *vs.RecQueue
	parentIdx cache.Indexer
	childIdx  map[string]cache.Indexer // resource -> indexer
	relIdx    map[string]cache.Indexer
	revIdx    cache.Indexer
	resources *dynamicdiscovery.ResourceMap
	// canonical body of every apply-patch seen so far, by the hash the memo stores
	hashBodies map[uint64]interface{}
}

// noteApplies remembers the bodies of the apply requests in the current log.
func (w *world) noteApplies() {
	for _, e := range w.sim.LogCopy() {
		if e.Verb == "apply" && e.BodyHash != "" {
			if h, err := strconv.ParseUint(e.BodyHash, 10, 64); err == nil {
				w.hashBodies[h] = e.Body
			}
		}
	}
}

// memoDump: the process-global SSA memo in the form the model reads.
func (w *world) memoDump() []interface{} {
	out := []interface{}{}
	entries := common.VerifMemoDump()
	sort.Slice(entries, func(i, j int) bool { return entries[i].Key < entries[j].Key })
	for _, e := range entries {
		out = append(out, vs.M{"key": e.Key, "desired": w.hashBodies[e.Hash], "generation": e.Generation})
	}
	return out
}

// customizeCached: the cached customize answer for the cached parent, or nil.
func (w *world) customizeCached(name string) interface{} {
	for _, it := range w.parentIdx.List() {
		u := it.(*unstructured.Unstructured)
		if u.GetName() == name {
			if v, ok := w.pc.customize.VerifCachedResponse(u.GetUID(), u.GetGeneration()); ok {
				return v
			}
		}
	}
	return nil
}

// customizeExpected: what the scripted (pure) customize hook answers for the cached parent - the answer a cached entry for
// its (UID, generation) has to be equivalent to.
func (w *world) customizeExpected(name string) interface{} {
	if !w.cfg.Customize {
		return nil
	}
	for _, it := range w.parentIdx.List() {
		u := it.(*unstructured.Unstructured)
		if u.GetName() == name {
			ans := scriptedHook(w.cfg)("customize", map[string]interface{}{"parent": u.UnstructuredContent()})
			var v interface{}
			if json.Unmarshal(ans.Body, &v) == nil {
				return v
			}
		}
	}
	return nil
}

func (w *world) close() { w.sim.Close(); w.hook.Close() }

// sortedRevLister lists ControllerRevisions in name order. The real lister iterates a Go map, and
// which of two revisions with a duplicate claim keeps it depends on that order; fixing the order makes
// a scenario replayable (the model processes revisions in the same order).
type sortedRevLister struct {
	mclisters.ControllerRevisionLister
}

type sortedRevNsLister struct {
	mclisters.ControllerRevisionNamespaceLister
}

// revListDesc: list the revisions in descending name order (the real lister's order is arbitrary; scenarios fix one of
// the two so that both orders get exercised). Set per scenario; the cache dump uses the same order.
var revListDesc bool

func sortRevs(rs []*v1alpha1.ControllerRevision) []*v1alpha1.ControllerRevision {
	sort.Slice(rs, func(i, j int) bool {
		if rs[i].Namespace != rs[j].Namespace {
			return (rs[i].Namespace < rs[j].Namespace) != revListDesc
		}
		return (rs[i].Name < rs[j].Name) != revListDesc
	})
	return rs
}

func (l sortedRevLister) List(sel labels.Selector) ([]*v1alpha1.ControllerRevision, error) {
	rs, err := l.ControllerRevisionLister.List(sel)
	return sortRevs(rs), err
}
func (l sortedRevLister) ControllerRevisions(ns string) mclisters.ControllerRevisionNamespaceLister {
	return sortedRevNsLister{l.ControllerRevisionLister.ControllerRevisions(ns)}
}
func (l sortedRevNsLister) List(sel labels.Selector) ([]*v1alpha1.ControllerRevision, error) {
	rs, err := l.ControllerRevisionNamespaceLister.List(sel)
	return sortRevs(rs), err
}

func simDefs(cfg scfg) []vs.ResourceDef {
	defs := []vs.ResourceDef{
		{Group: parentGroup, Version: "v1", Resource: "things", Kind: "Thing", Namespaced: cfg.ParentNamespaced, HasStatus: cfg.ParentHasStatus},
		{Group: parentGroup, Version: "v1", Resource: "clusterthings", Kind: "ClusterThing", Namespaced: false, HasStatus: cfg.ParentHasStatus},
		{Group: revGroup, Version: "v1alpha1", Resource: "controllerrevisions", Kind: "ControllerRevision", Namespaced: true},
	}
	for _, c := range allChildKinds {
		defs = append(defs, vs.ResourceDef{Group: c.group(), Version: c.version(), Resource: c.Resource, Kind: c.Kind, Namespaced: c.Namespaced, HasStatus: c.HasStatus})
	}
	defs = append(defs, vs.ResourceDef{Group: "", Version: "v1", Resource: "secrets", Kind: "Secret", Namespaced: true})
	return defs
}

func resourceLists(defs []vs.ResourceDef) []*metav1.APIResourceList {
	by := map[string]*metav1.APIResourceList{}
	var order []string
	for _, d := range defs {
		gv := d.APIVersion()
		l := by[gv]
		if l == nil {
			l = &metav1.APIResourceList{GroupVersion: gv}
			by[gv] = l
			order = append(order, gv)
		}
		// a discovery document lists a subresource before or after its main resource (aggregated API servers do either):
		// resources with a name of even length get theirs listed first
		main := metav1.APIResource{Name: d.Resource, Kind: d.Kind, Namespaced: d.Namespaced, Group: d.Group, Version: d.Version}
		status := metav1.APIResource{Name: d.Resource + "/status", Kind: d.Kind, Namespaced: d.Namespaced, Group: d.Group, Version: d.Version}
		if d.HasStatus && len(d.Resource)%2 == 0 {
			l.APIResources = append(l.APIResources, status)
		}
		l.APIResources = append(l.APIResources, main)
		if d.HasStatus && len(d.Resource)%2 != 0 {
			l.APIResources = append(l.APIResources, status)
		}
	}
	var out []*metav1.APIResourceList
	for _, gv := range order {
		out = append(out, by[gv])
	}
	return out
}

func (cfg scfg) parentResource() string {
	if cfg.ParentNamespaced {
		return "things"
	}
	return "clusterthings"
}
func (cfg scfg) parentKind() string {
	if cfg.ParentNamespaced {
		return "Thing"
	}
	return "ClusterThing"
}

func (cfg scfg) compositeController(hookURL func(string) *string) *v1alpha1.CompositeController {
	cc := &v1alpha1.CompositeController{
		TypeMeta:   metav1.TypeMeta{APIVersion: "metacontroller.k8s.io/v1alpha1", Kind: "CompositeController"},
		ObjectMeta: metav1.ObjectMeta{Name: cfg.Name},
	}
	cc.Spec.ParentResource = v1alpha1.CompositeControllerParentResourceRule{
		ResourceRule: v1alpha1.ResourceRule{APIVersion: parentGroup + "/v1", Resource: cfg.parentResource()},
	}
	if cfg.ParentSelector != nil {
		ls := &metav1.LabelSelector{}
		_ = runtime.DefaultUnstructuredConverter.FromUnstructured(cfg.ParentSelector, ls)
		cc.Spec.ParentResource.LabelSelector = ls
	}
	if cfg.IgnoreStatusChanges {
		t := true
		cc.Spec.ParentResource.IgnoreStatusChanges = &t
	}
	if len(cfg.FieldPaths) > 0 {
		cc.Spec.ParentResource.RevisionHistory = &v1alpha1.CompositeControllerRevisionHistory{FieldPaths: cfg.FieldPaths}
	}
	for _, c := range cfg.Children {
		rule := v1alpha1.CompositeControllerChildResourceRule{ResourceRule: v1alpha1.ResourceRule{APIVersion: c.APIVersion, Resource: c.Resource}}
		if c.Method != "" {
			us := &v1alpha1.CompositeControllerChildUpdateStrategy{Method: v1alpha1.ChildUpdateMethod(strings.TrimPrefix(c.Method, "!"))}
			for _, ck := range c.Checks {
				cond := v1alpha1.StatusConditionCheck{Type: ck["type"].(string)}
				if s, ok := ck["status"].(string); ok {
					cond.Status = &s
				}
				if s, ok := ck["reason"].(string); ok {
					cond.Reason = &s
				}
				us.StatusChecks.Conditions = append(us.StatusChecks.Conditions, cond)
			}
			rule.UpdateStrategy = us
		}
		cc.Spec.ChildResources = append(cc.Spec.ChildResources, rule)
	}
	if cfg.GenerateSelector {
		t := true
		cc.Spec.GenerateSelector = &t
	}
	cc.Spec.Hooks = &v1alpha1.CompositeControllerHooks{
		Sync: &v1alpha1.Hook{Webhook: &v1alpha1.Webhook{URL: hookURL("sync")}},
	}
	if cfg.Finalize {
		cc.Spec.Hooks.Finalize = &v1alpha1.Hook{Webhook: &v1alpha1.Webhook{URL: hookURL("finalize")}}
	}
	if cfg.Customize {
		cc.Spec.Hooks.Customize = &v1alpha1.Hook{Webhook: &v1alpha1.Webhook{URL: hookURL("customize")}}
	}
	return cc
}

func newIndexer() cache.Indexer {
	return cache.NewIndexer(cache.MetaNamespaceKeyFunc, cache.Indexers{cache.NamespaceIndex: cache.MetaNamespaceIndexFunc})
}

func newWorld(cfg scfg) *world {
	w := &world{cfg: cfg, childIdx: map[string]cache.Indexer{}, relIdx: map[string]cache.Indexer{}, hashBodies: map[uint64]interface{}{}}
	revListDesc = false
	common.VerifMemoReset()
	defs := simDefs(cfg)
	w.sim = vs.NewSim(defs)
	w.hook = vs.NewHookServer(w.sim)
	w.resources = dynamicdiscovery.NewStaticResourceMap(resourceLists(defs))
	restConfig := &rest.Config{Host: w.sim.URL()}
	dynClient, err := dynamicclientset.New(restConfig, w.resources)
	if err != nil {
		panic(err)
	}
	mcClient, err := mcclientset.NewForConfig(restConfig)
	if err != nil {
		panic(err)
	}
	cc := cfg.compositeController(w.hook.URL)
	parentClient, err := dynClient.Resource(cc.Spec.ParentResource.APIVersion, cc.Spec.ParentResource.Resource)
	if err != nil {
		panic(err)
	}
	us, err := makeUpdateStrategyMap(w.resources, cc)
	if err != nil {
		panic(err)
	}
	w.parentIdx = newIndexer()
	parentGV := schema.GroupVersion{Group: parentGroup, Version: "v1"}
	parentInformer := dynamicinformer.NewStaticResourceInformer(parentGV.WithResource(cfg.parentResource()), w.parentIdx)
	childInformers := make(common.InformerMap)
	for _, c := range cfg.Children {
		idx := newIndexer()
		w.childIdx[c.Resource] = idx
		gv, _ := schema.ParseGroupVersion(c.APIVersion)
		childInformers.Set(gv.WithResource(c.Resource), dynamicinformer.NewStaticResourceInformer(gv.WithResource(c.Resource), idx))
	}
	w.revIdx = newIndexer()
	syncHook, err := hooks.NewHook(cc.Spec.Hooks.Sync, cc.Name, common.CompositeController, common.SyncHook)
	if err != nil {
		panic(err)
	}
	finalizeHook, err := hooks.NewHook(cc.Spec.Hooks.Finalize, cc.Name, common.CompositeController, common.FinalizeHook)
	if err != nil {
		panic(err)
	}
	parentSelector := labels.Everything()
	if cc.Spec.ParentResource.LabelSelector != nil {
		parentSelector, err = metav1.LabelSelectorAsSelector(cc.Spec.ParentResource.LabelSelector)
		if err != nil {
			panic(err)
		}
	}
	w.q = &vs.RecQueue{}
	ssa := &common.ApplyOptions{Strategy: common.ApplyStrategyDynamicApply}
	if cfg.SSA {
		ssa = &common.ApplyOptions{Strategy: common.ApplyStrategyServerSideApply, FieldManager: "metacontroller"}
	}
	pc := &parentController{
		cc:             cc,
		mcClient:       mcClient,
		dynClient:      dynClient,
		childInformers: childInformers,
		parentClient:   parentClient,
		parentInformer: parentInformer,
		parentSelector: parentSelector,
		parentResource: parentClient.APIResource,
		revisionLister: sortedRevLister{mclisters.NewControllerRevisionLister(w.revIdx)},
		updateStrategy: us,
		queue:          w.q,
		numWorkers:     1,
		ssaOptions:     ssa,
		eventRecorder:  record.NewFakeRecorder(100000),
		finalizer:      finalizer.NewManager("metacontroller.io/compositecontroller-"+cc.Name, cc.Spec.Hooks.Finalize != nil),
		syncHook:       syncHook,
		finalizeHook:   finalizeHook,
		logger:         logr.Discard(),
	}
	parentResources := make(common.GroupKindMap)
	parentResources.Set(schema.GroupKind{Group: parentGroup, Kind: cfg.parentKind()}, parentClient.APIResource)
	parentInformers := make(common.InformerMap)
	parentInformers.Set(parentGV.WithResource(cfg.parentResource()), parentInformer)
	pc.customize, err = customize.NewCustomizeManager(cc.Name, pc.enqueueParentObject, cc, dynClient, nil, parentInformers, parentResources, pc.logger, common.CompositeController)
	if err != nil {
		panic(err)
	}
	for _, r := range cfg.Related {
		idx := newIndexer()
		w.relIdx[r.Resource] = idx
		gv, _ := schema.ParseGroupVersion(r.APIVersion)
		pc.customize.VerifSetRelatedInformer(gv.WithResource(r.Resource), dynamicinformer.NewStaticResourceInformer(gv.WithResource(r.Resource), idx))
	}
	w.pc = pc
	return w
}

// fillCaches makes every cache a fresh copy of the store (arbitrary staleness is applied on top by the caller).
func (w *world) fillCaches() {
	reset := func(idx cache.Indexer, group, resource string) {
		var items []interface{}
		for _, o := range w.sim.List(group, resource) {
			items = append(items, &unstructured.Unstructured{Object: o})
		}
		_ = idx.Replace(items, "")
	}
	reset(w.parentIdx, parentGroup, w.cfg.parentResource())
	for _, c := range w.cfg.Children {
		reset(w.childIdx[c.Resource], c.group(), c.Resource)
	}
	for _, c := range w.cfg.Related {
		reset(w.relIdx[c.Resource], c.group(), c.Resource)
	}
	var revs []interface{}
	for _, o := range w.sim.List(revGroup, "controllerrevisions") {
		r := &v1alpha1.ControllerRevision{}
		if err := runtime.DefaultUnstructuredConverter.FromUnstructured(o, r); err != nil {
			panic(err)
		}
		revs = append(revs, r)
	}
	_ = w.revIdx.Replace(revs, "")
}

// cacheDump lists what the listers would return, in canonical form.
func (w *world) cacheDump() vs.M {
	dump := func(idx cache.Indexer) []interface{} {
		var out []interface{}
		keys := idx.ListKeys()
		sort.Strings(keys)
		for _, k := range keys {
			it, _, _ := idx.GetByKey(k)
			switch t := it.(type) {
			case *unstructured.Unstructured:
				out = append(out, vs.CanonObj(t.Object))
			case *v1alpha1.ControllerRevision:
				m, err := runtime.DefaultUnstructuredConverter.ToUnstructured(t)
				if err != nil {
					panic(err)
				}
				out = append(out, revCanon(m))
			}
		}
		if out == nil {
			out = []interface{}{}
		}
		return out
	}
	children := vs.M{}
	for r, idx := range w.childIdx {
		children[r] = dump(idx)
	}
	related := vs.M{}
	for r, idx := range w.relIdx {
		related[r] = dump(idx)
	}
	revs := dump(w.revIdx)
	if revListDesc {
		for i, j := 0, len(revs)-1; i < j; i, j = i+1, j-1 {
			revs[i], revs[j] = revs[j], revs[i]
		}
	}
	return vs.M{"parents": dump(w.parentIdx), "children": children, "related": related, "revisions": revs}
}

// revCanon: a ControllerRevision as JSON with parentPatch decoded.
func revCanon(m map[string]interface{}) map[string]interface{} {
	c := vs.CanonObj(m)
	if md, ok := c["metadata"].(map[string]interface{}); ok {
		if v, present := md["creationTimestamp"]; present && v == nil {
			delete(md, "creationTimestamp")
		}
	}
	return c
}

// runSync pushes key through the real processNextWorkItem and reports the outcome.
func (w *world) runSync(key string) (outcome string, detail string) {
	w.q.Reset()
	w.q.Pending = []interface{}{key}
	lastSyncError = ""
	defer func() {
		if r := recover(); r != nil {
			outcome, detail = "panic", fmt.Sprint(r)
		}
	}()
	w.pc.processNextWorkItem()
	outcome = "ok"
	for _, op := range w.q.Ops {
		if op["op"] == "addRateLimited" {
			outcome = "error"
		}
	}
	return outcome, lastSyncError
}
