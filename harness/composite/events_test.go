package composite

// Watch-event handlers: which parents does a delivered event put on the work queue?
// The real handlers (enqueueParentObject, updateParentObject, onChildAdd/Update/Delete and the customize
// manager's onRelated*) are called directly with workers off; the queue is read afterwards.

import (
	"encoding/json"
	"fmt"
	"sort"
	"testing"

	"k8s.io/apimachinery/pkg/apis/meta/v1/unstructured"
	"k8s.io/client-go/tools/cache"

	vs "metacontroller/pkg/internal/verifsim"
)

func u(o map[string]interface{}) *unstructured.Unstructured {
	return &unstructured.Unstructured{Object: vs.DeepCopy(o).(map[string]interface{})}
}

func metaOf(o map[string]interface{}) map[string]interface{} {
	md, _ := o["metadata"].(map[string]interface{})
	if md == nil {
		md = map[string]interface{}{}
		o["metadata"] = md
	}
	return md
}

// bump gives the object a new resourceVersion (a real change as the watch would deliver it).
func bump(o map[string]interface{}) {
	md := metaOf(o)
	md["resourceVersion"] = fmt.Sprint(md["resourceVersion"]) + "1"
}

// mutateParent returns a changed copy of a parent: which part changes is the interesting bit.
func mutateParent(r *vs.Rand, p map[string]interface{}) map[string]interface{} {
	c := vs.DeepCopy(p).(map[string]interface{})
	md := metaOf(c)
	bump(c)
	switch r.Intn(8) {
	case 0: // status only
		c["status"] = vs.M{"replicas": int64(r.Intn(5)), "touched": true}
	case 1: // spec change: generation moves
		g, _ := md["generation"].(int64)
		md["generation"] = g + 1
		if sp, ok := c["spec"].(map[string]interface{}); ok {
			sp["image"] = "v9"
		}
	case 2: // a label is added
		l, _ := md["labels"].(map[string]interface{})
		if l == nil {
			l = map[string]interface{}{}
		}
		l["extra"] = "x"
		md["labels"] = l
	case 3: // labels removed altogether / emptied
		if r.Bool() {
			delete(md, "labels")
		} else {
			md["labels"] = map[string]interface{}{}
		}
	case 4: // an annotation changes
		a, _ := md["annotations"].(map[string]interface{})
		if a == nil {
			a = map[string]interface{}{}
		}
		a["note"] = "n"
		md["annotations"] = a
	case 5: // deletion starts
		md["deletionTimestamp"] = "2024-01-02T00:00:00Z"
		f, _ := md["finalizers"].([]interface{})
		md["finalizers"] = append(f, "example.com/blocker")
	case 6: // selector labels of the controller: match / unmatch
		md["labels"] = map[string]interface{}{"managed": r.Pick([]string{"yes", "no"})}
	case 7: // resync replay: nothing changes, not even the version
		return vs.DeepCopy(p).(map[string]interface{})
	}
	return c
}

// childVariant derives the object of a child event from a stored child (or from scratch).
func childVariant(r *vs.Rand, sc *scenario, c childSpec, base map[string]interface{}) map[string]interface{} {
	w := sc.w
	p1 := w.sim.GetObj(parentGroup, sc.Cfg.parentResource(), nsOfKey(sc.key), "p1")
	p2 := w.sim.GetObj(parentGroup, sc.Cfg.parentResource(), nsOfKey(sc.key), "p2")
	var o map[string]interface{}
	if base != nil {
		o = vs.DeepCopy(base).(map[string]interface{})
	} else {
		md := vs.M{"name": "fresh", "uid": "uid-fresh", "resourceVersion": "900", "labels": vs.DeepCopy(objMap(p1, "spec", "selector", "matchLabels"))}
		if c.Namespaced {
			md["namespace"] = "ns1"
		}
		o = vs.M{"apiVersion": c.APIVersion, "kind": c.Kind, "metadata": md}
	}
	md := metaOf(o)
	ref := func(parent map[string]interface{}) map[string]interface{} { return ownerRef(parent, true) }
	switch r.Intn(12) {
	case 0: // as stored
	case 1: // controlled by p1
		md["ownerReferences"] = []interface{}{ref(p1)}
	case 2: // controlled by p2
		md["ownerReferences"] = []interface{}{ref(p2)}
	case 3: // right name, wrong UID (a parent that was deleted and recreated)
		rf := ref(p1)
		rf["uid"] = "uid-gone"
		md["ownerReferences"] = []interface{}{rf}
	case 4: // right name, wrong kind
		rf := ref(p1)
		rf["kind"] = "OtherKind"
		md["ownerReferences"] = []interface{}{rf}
	case 5: // right name and kind, other API group
		rf := ref(p1)
		rf["apiVersion"] = "other.example.com/v1"
		md["ownerReferences"] = []interface{}{rf}
	case 6: // same group, other version
		rf := ref(p1)
		rf["apiVersion"] = parentGroup + "/v2"
		md["ownerReferences"] = []interface{}{rf}
	case 7: // orphan carrying the selector's labels
		delete(md, "ownerReferences")
		md["labels"] = vs.DeepCopy(objMap(p1, "spec", "selector", "matchLabels"))
	case 8: // orphan that matches nothing
		delete(md, "ownerReferences")
		md["labels"] = map[string]interface{}{"app": "nomatch"}
	case 9: // only a non-controller owner reference to p1
		rf := ref(p1)
		delete(rf, "controller")
		md["ownerReferences"] = []interface{}{rf}
	case 10: // other namespace, reference to p1 by name
		if c.Namespaced {
			md["namespace"] = "ns2"
		}
		md["ownerReferences"] = []interface{}{ref(p1)}
	case 11: // being deleted
		md["deletionTimestamp"] = "2024-01-02T00:00:00Z"
	}
	if sc.Cfg.GenerateSelector && r.Chance(50) {
		l, _ := md["labels"].(map[string]interface{})
		if l == nil {
			l = map[string]interface{}{}
		}
		l["controller-uid"] = objStr(p1, "metadata", "uid")
		md["labels"] = l
	}
	return o
}

func queueKeys(q *vs.RecQueue) []string {
	var out []string
	for _, op := range q.Ops {
		if op["op"] == "add" {
			out = append(out, fmt.Sprint(op["key"]))
		}
	}
	sort.Strings(out)
	if out == nil {
		out = []string{}
	}
	return out
}

// TestVerifEvents: one line per delivered event.
func TestVerifEvents(t *testing.T) {
	seed, n := vs.Params(500)
	out := vs.OpenOut()
	defer out.Close()
	for i := 0; i < n; i++ {
		if !vs.Mine(i) {
			continue
		}
		r := vs.CaseRand(seed, i)
		cfg := genCfg(r, false)
		cfg.IgnoreStatusChanges = r.Chance(50)
		sc := buildScenario(r, cfg)
		w := sc.w
		er := vs.CaseRand(seed+4242, i)
		// a few more parents: one that the controller's selector does not select, one carrying only the finalizer
		if cfg.ParentSelector != nil {
			p1 := w.sim.GetObj(parentGroup, cfg.parentResource(), nsOfKey(sc.key), "p1")
			for _, v := range []string{"unsel", "unsel-fin"} {
				c := vs.DeepCopy(p1).(map[string]interface{})
				md := metaOf(c)
				md["name"] = "p-" + v
				delete(md, "uid")
				delete(md, "resourceVersion")
				md["labels"] = map[string]interface{}{"managed": "no"}
				delete(md, "finalizers")
				delete(md, "deletionTimestamp")
				if v == "unsel-fin" {
					md["finalizers"] = []interface{}{"metacontroller.io/compositecontroller-" + cfg.Name}
				}
				w.sim.Put(parentGroup, cfg.parentResource(), c)
			}
			w.fillCaches()
		}
		for k := 0; k < 6; k++ {
			role := er.Pick([]string{"parent", "child", "child", "child", "related"})
			if role == "related" && !cfg.Customize {
				role = "child"
			}
			typ := er.Pick([]string{"add", "update", "update", "delete"})
			tomb := typ == "delete" && er.Chance(40)
			var old, obj map[string]interface{}
			resource := ""
			switch role {
			case "parent":
				ps := w.sim.List(parentGroup, cfg.parentResource())
				obj = ps[er.Intn(len(ps))]
				if typ == "update" {
					old = obj
					obj = mutateParent(er, old)
				}
			case "child":
				c := cfg.Children[er.Intn(len(cfg.Children))]
				resource = c.Resource
				var base map[string]interface{}
				if objs := w.sim.List(c.group(), c.Resource); len(objs) > 0 && er.Chance(80) {
					base = objs[er.Intn(len(objs))]
				}
				obj = childVariant(er, sc, c, base)
				if typ == "update" {
					old = vs.DeepCopy(obj).(map[string]interface{})
					if !er.Chance(25) { // 25%: a resync replay (same resourceVersion)
						bump(obj)
					}
					if er.Chance(30) {
						metaOf(old)["labels"] = map[string]interface{}{"app": "before"}
					}
				}
			case "related":
				resource = "secrets"
				objs := w.sim.List("", "secrets")
				if len(objs) > 0 && er.Chance(85) {
					obj = vs.DeepCopy(objs[er.Intn(len(objs))]).(map[string]interface{})
				} else {
					obj = vs.M{"apiVersion": "v1", "kind": "Secret", "metadata": vs.M{"name": er.Pick([]string{"s1", "s2", "s9"}), "namespace": er.Pick([]string{"ns1", "ns2"}), "uid": "uid-s", "resourceVersion": "700", "labels": vs.M{}}}
				}
				if er.Chance(15) {
					metaOf(obj)["deletionTimestamp"] = "2024-01-02T00:00:00Z"
				}
				if typ == "update" {
					old = vs.DeepCopy(obj).(map[string]interface{})
					if !er.Chance(25) {
						bump(obj)
					}
					// the change: the label the rules select on flips, or only data changes
					if er.Chance(60) {
						l, _ := metaOf(obj)["labels"].(map[string]interface{})
						if l == nil {
							l = map[string]interface{}{}
						}
						if l["use"] == "yes" {
							delete(l, "use")
						} else {
							l["use"] = "yes"
						}
						metaOf(obj)["labels"] = l
					}
				}
			}
			w.q.Reset()
			w.sim.ResetLog()
			func() {
				defer func() {
					if rec := recover(); rec != nil {
						w.q.Ops = append(w.q.Ops, map[string]interface{}{"op": "panic", "key": fmt.Sprint(rec)})
					}
				}()
				var arg interface{} = u(obj)
				if tomb {
					key, _ := cache.MetaNamespaceKeyFunc(u(obj))
					arg = cache.DeletedFinalStateUnknown{Key: key, Obj: u(obj)}
				}
				switch role + "/" + typ {
				case "parent/add", "parent/delete":
					w.pc.enqueueParentObject(arg)
				case "parent/update":
					w.pc.updateParentObject(u(old), u(obj))
				case "child/add":
					w.pc.onChildAdd(u(obj))
				case "child/update":
					w.pc.onChildUpdate(u(old), u(obj))
				case "child/delete":
					w.pc.onChildDelete(arg)
				case "related/add":
					w.pc.customize.VerifOnRelated("add", nil, u(obj))
				case "related/update":
					w.pc.customize.VerifOnRelated("update", u(old), u(obj))
				case "related/delete":
					w.pc.customize.VerifOnRelated("delete", nil, arg)
				}
			}()
			// the customize answers the handler worked from (cached by UID and generation)
			answers := vs.M{}
			hookCalls := 0
			for _, e := range w.sim.LogCopy() {
				if e.Verb == "hook" && e.Hook == "customize" {
					hookCalls++
				}
			}
			if cfg.Customize {
				for _, it := range w.parentIdx.List() {
					pu := it.(*unstructured.Unstructured)
					if v, ok := w.pc.customize.VerifCachedResponse(pu.GetUID(), pu.GetGeneration()); ok {
						answers[string(pu.GetUID())] = v
					} else {
						// nothing cached for this parent after the event: what the (pure) customize hook answers for it - the
						// handler has to ask when it has no cached answer, so this is what it must have worked from
						ans := scriptedHook(cfg)("customize", map[string]interface{}{"parent": pu.UnstructuredContent()})
						var v interface{}
						if json.Unmarshal(ans.Body, &v) == nil {
							answers[string(pu.GetUID())] = v
						}
					}
				}
			}
			panicked := false
			for _, op := range w.q.Ops {
				if op["op"] == "panic" {
					panicked = true
				}
			}
			out.Line(vs.M{"kind": "event", "ctl": "composite", "case": i*10 + k, "seed": seed, "cfg": cfg,
				"parents": w.cacheDump()["parents"], "role": role, "type": typ, "tombstone": tomb, "resource": resource,
				"old": old, "obj": obj, "answers": answers, "customizeCalls": hookCalls, "queue": queueKeys(w.q), "panic": panicked})
		}
		sc.w.close()
	}
}
