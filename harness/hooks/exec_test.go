package hooks

// Verification harness (injected with go test -overlay; not part of /repo).
// The executor as the controllers build it: NewWebhookExecutor(webhook, controller, type, hook) with the real HTTP
// client (and the metrics wrapper around it) against an in-process hook that answers after a given delay.
// A controller is re-created several times under the same name with another `timeout`; each incarnation is called once.

import (
	"fmt"
	"net/http"
	"net/http/httptest"
	"strings"
	"sync"
	"testing"
	"time"

	metav1 "k8s.io/apimachinery/pkg/apis/meta/v1"
	"k8s.io/apimachinery/pkg/apis/meta/v1/unstructured"

	"metacontroller/pkg/apis/metacontroller/v1alpha1"
	"metacontroller/pkg/controller/common"
	vs "metacontroller/pkg/internal/verifsim"
)

func TestVerifHookExec(t *testing.T) {
	seed, n := vs.Params(24)
	out := vs.OpenOut()
	defer out.Close()
	var mu sync.Mutex
	delay := time.Duration(0)
	srv := httptest.NewServer(http.HandlerFunc(func(w http.ResponseWriter, r *http.Request) {
		mu.Lock()
		d := delay
		mu.Unlock()
		select {
		case <-time.After(d):
		case <-r.Context().Done():
			return
		}
		w.WriteHeader(200)
		_, _ = w.Write([]byte(`{"status":{"id":"late"}}`))
	}))
	defer srv.Close()
	parent := &unstructured.Unstructured{Object: vs.M{"apiVersion": "ctl.example.com/v1", "kind": "Thing", "metadata": vs.M{"name": "p1", "namespace": "ns1"}}}
	for i := 0; i < n; i++ {
		if !vs.Mine(i) {
			continue
		}
		r := vs.CaseRand(seed, i)
		// the same controller name / hook type / URL for every incarnation of the case (names are reused across cases too)
		ctl := fmt.Sprintf("ctl-%d", r.Intn(3))
		hookType := []common.HookType{common.SyncHook, common.FinalizeHook, common.CustomizeHook}[r.Intn(3)]
		ctlType := []common.ControllerType{common.CompositeController, common.DecoratorController}[r.Intn(2)]
		url := srv.URL + "/" + ctl
		var steps []vs.M
		for k := 0; k < 2+r.Intn(2); k++ {
			// timeouts and delays are far apart: 150 ms / 2 s against 0 / 600 ms
			timeoutMs := []int{150, 2000, 2000, 0}[r.Intn(4)] // 0 = not set (default 10 s)
			delayMs := []int{0, 600}[r.Intn(2)]
			wh := &v1alpha1.Webhook{URL: &url}
			if timeoutMs > 0 {
				wh.Timeout = &metav1.Duration{Duration: time.Duration(timeoutMs) * time.Millisecond}
			}
			if r.Chance(30) {
				en := true
				wh.Etag = &v1alpha1.WebhookEtagConfig{Enabled: &en}
			}
			ex, err := NewWebhookExecutor(wh, ctl, ctlType, hookType)
			if err != nil {
				t.Fatal(err)
			}
			mu.Lock()
			delay = time.Duration(delayMs) * time.Millisecond
			mu.Unlock()
			var resp tresp
			start := time.Now()
			cerr := ex.Call(&stubReq{Parent: parent, Call: k}, &resp)
			took := time.Since(start)
			st := vs.M{"timeoutMs": timeoutMs, "delayMs": delayMs, "etag": wh.Etag != nil, "error": cerr != nil, "tookMs": took.Milliseconds()}
			if cerr != nil {
				st["timeoutError"] = strings.Contains(cerr.Error(), "Client.Timeout") || strings.Contains(cerr.Error(), "deadline exceeded")
			} else {
				id, _ := resp.Status["id"].(string)
				st["id"] = id
			}
			steps = append(steps, st)
		}
		out.Line(vs.M{"kind": "hookexec", "case": i, "seed": seed, "controller": ctl, "hook": string(hookType), "steps": steps})
	}
}
