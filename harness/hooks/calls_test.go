package hooks

// Verification harness (injected with go test -overlay; not part of /repo).
// Drives the real webhookExecutor.Call with a scripted HTTP client; concurrent calls on the same
// cache key are interleaved at the grain enrich-headers / round trip / adjust-response.

import (
	"bytes"
	"errors"
	"fmt"
	"io"
	"net/http"
	"strings"
	"testing"
	"time"

	"k8s.io/apimachinery/pkg/apis/meta/v1/unstructured"

	"metacontroller/pkg/apis/metacontroller/v1alpha1"
	"metacontroller/pkg/cache"
	"metacontroller/pkg/controller/common"
	vs "metacontroller/pkg/internal/verifsim"
)

type stubReq struct {
	Parent *unstructured.Unstructured `json:"parent"`
	Call   int                        `json:"call"`
}

func (s *stubReq) GetRootObject() *unstructured.Unstructured { return s.Parent }

type tresp struct {
	Status    map[string]interface{} `json:"status"`
	Finalized bool                   `json:"finalized"`
}

type answer struct {
	Status     int    `json:"status"`
	ETag       string `json:"etag"`
	BodyID     string `json:"bodyId"`
	BodyClass  string `json:"bodyClass"`
	RetryClass string `json:"retryClass"`
	RetryArg   int    `json:"retryArg"`
}

var t0 = time.Date(2024, 1, 1, 12, 0, 0, 0, time.UTC)

func (a answer) body() string {
	switch a.BodyClass {
	case "valid":
		return fmt.Sprintf(`{"status":{"id":%q}}`, a.BodyID)
	case "unknownFields":
		return fmt.Sprintf(`{"status":{"id":%q},"bogus":1}`, a.BodyID)
	case "duplicateFields":
		return fmt.Sprintf(`{"status":{"id":%q},"finalized":false,"finalized":true}`, a.BodyID)
	default:
		return `{"status":`
	}
}

func (a answer) response() *http.Response {
	h := http.Header{}
	if a.ETag != "" {
		h.Set("ETag", a.ETag)
	}
	switch a.RetryClass {
	case "numeric":
		h.Set("Retry-After", fmt.Sprint(a.RetryArg))
	case "date":
		h.Set("Retry-After", t0.Add(time.Duration(a.RetryArg)*time.Second).Format(time.RFC1123))
	case "garbage":
		h.Set("Retry-After", "soon")
	}
	return &http.Response{StatusCode: a.Status, Header: h, Body: io.NopCloser(strings.NewReader(a.body()))}
}

type scripted struct {
	entered chan [2]string // call id, If-None-Match
	release map[string]chan *http.Response
}

func (s *scripted) Do(req *http.Request) (*http.Response, error) {
	b, _ := io.ReadAll(req.Body)
	id := "0"
	if i := bytes.Index(b, []byte(`"call":`)); i >= 0 {
		j := i + len(`"call":`)
		k := j
		for k < len(b) && b[k] >= '0' && b[k] <= '9' {
			k++
		}
		id = string(b[j:k])
	}
	s.entered <- [2]string{id, req.Header.Get("If-None-Match")}
	resp := <-s.release[id]
	if resp == nil {
		return nil, errors.New("connection refused")
	}
	return resp, nil
}

func classify(err error) vs.M {
	if err == nil {
		return nil
	}
	var tm *TooManyRequestError
	if errors.As(err, &tm) {
		return vs.M{"tooMany": tm.AfterSecond}
	}
	s := err.Error()
	switch {
	case strings.Contains(s, "unsupported status code"):
		return vs.M{"err": "unsupportedStatus"}
	case strings.Contains(s, "cannot find cached response"), strings.Contains(s, "does not match the ETag"):
		return vs.M{"err": "cacheMiss"}
	case strings.Contains(s, "can't unmarshal"):
		return vs.M{"err": "undecodable"}
	case strings.Contains(s, "strict validation failed"):
		return vs.M{"err": "strictRejected"}
	case strings.Contains(s, "http error"):
		return vs.M{"err": "http"}
	}
	return vs.M{"err": "other:" + s}
}

func genAnswer(r *vs.Rand, i int) answer {
	a := answer{BodyID: fmt.Sprintf("b%d-%d", i, r.Intn(3))}
	a.Status = []int{200, 200, 200, 304, 304, 412, 429, 404, 500, 204}[r.Intn(10)]
	a.ETag = []string{"", "e1", "e2", "e1"}[r.Intn(4)]
	a.BodyClass = []string{"valid", "valid", "valid", "unknownFields", "duplicateFields", "invalid"}[r.Intn(6)]
	a.RetryClass = []string{"absent", "numeric", "date", "garbage"}[r.Intn(4)]
	a.RetryArg = r.Intn(20)
	return a
}

// TestVerifHookCalls: schedules of 1-3 concurrent calls about the same parent.
func TestVerifHookCalls(t *testing.T) {
	seed, n := vs.Params(3000)
	out := vs.OpenOut()
	defer out.Close()
	parent := &unstructured.Unstructured{Object: vs.M{"apiVersion": "ctl.example.com/v1", "kind": "Thing", "metadata": vs.M{"name": "p1", "namespace": "ns1"}}}
	for i := 0; i < n; i++ {
		if !vs.Mine(i) {
			continue
		}
		r := vs.CaseRand(seed, i)
		etag := r.Chance(75)
		strict := r.Chance(40)
		ncalls := 1 + r.Intn(3)
		// schedule: random interleaving with E_i before F_i
		var sched []string
		pendingE := []int{}
		for c := 0; c < ncalls; c++ {
			pendingE = append(pendingE, c)
		}
		var open []int
		for len(pendingE) > 0 || len(open) > 0 {
			if len(pendingE) > 0 && (len(open) == 0 || r.Bool()) {
				c := pendingE[0]
				pendingE = pendingE[1:]
				sched = append(sched, fmt.Sprintf("E%d", c))
				open = append(open, c)
			} else {
				k := r.Intn(len(open))
				c := open[k]
				open = append(open[:k], open[k+1:]...)
				sched = append(sched, fmt.Sprintf("F%d", c))
			}
		}
		answers := make([]answer, ncalls)
		for c := range answers {
			answers[c] = genAnswer(r, c)
		}
		// executor with shared cache
		var abstract webhookAbstract = &webhookExecutorPlain{}
		var initial vs.M
		if etag {
			ec := cache.New[eTagKey, *eTagEntry](0, 0)
			ex := &webhookExecutorEtag{etagCache: ec}
			switch []int{0, 0, 0, 0, 0, 0, 0, 0, 1, 1, 1, 1, 1, 1, 1, 1, 1, 1, 1, 2}[r.Intn(20)] {
			case 0: // empty
			case 1: // hit
				ex.etagCache.Set(ex.getKeyFromObject(parent), &eTagEntry{Etag: "e1", Response: []byte(`{"status":{"id":"cached"}}`)})
				initial = vs.M{"etag": "e1", "bodyId": "cached", "bodyClass": "valid"}
			case 2: // expired
				// the entry outlives its time-to-live before the first call; entries stored later live long enough
				ec2 := cache.New[eTagKey, *eTagEntry](300*time.Millisecond, 0)
				ex = &webhookExecutorEtag{etagCache: ec2}
				ex.etagCache.Set(ex.getKeyFromObject(parent), &eTagEntry{Etag: "e1", Response: []byte(`{"status":{"id":"cached"}}`)})
				time.Sleep(310 * time.Millisecond)
			}
			abstract = ex
		}
		client := &scripted{entered: make(chan [2]string), release: map[string]chan *http.Response{}}
		mode := v1alpha1.ResponseUnmarshallModeLoose
		if strict {
			mode = v1alpha1.ResponseUnmarshallModeStrict
		}
		exec := newWebhookExecutor(client, "http://hook.invalid/sync", common.SyncHook, &mode, abstract, func() time.Time { return t0 })
		type res struct {
			err  error
			resp tresp
		}
		done := make([]chan res, ncalls)
		inm := make([]string, ncalls)
		results := make([]vs.M, ncalls)
		for c := 0; c < ncalls; c++ {
			done[c] = make(chan res, 1)
			client.release[fmt.Sprint(c)] = make(chan *http.Response, 1)
		}
		for _, st := range sched {
			var c int
			fmt.Sscanf(st[1:], "%d", &c)
			if st[0] == 'E' {
				go func(c int) {
					var out tresp
					err := exec.Call(&stubReq{Parent: parent, Call: c}, &out)
					done[c] <- res{err, out}
				}(c)
				e := <-client.entered
				var ci int
				fmt.Sscanf(e[0], "%d", &ci)
				inm[ci] = e[1]
			} else {
				client.release[fmt.Sprint(c)] <- answers[c].response()
				rr := <-done[c]
				if rr.err != nil {
					results[c] = classify(rr.err)
				} else {
					id, _ := rr.resp.Status["id"].(string)
					results[c] = vs.M{"ok": id}
				}
			}
		}
		out.Line(vs.M{"kind": "hookcalls", "case": i, "seed": seed, "etag": etag, "strict": strict, "initial": initial,
			"schedule": sched, "answers": answers, "inm": inm, "results": results})
	}
}
