package apply

// Verification harness (injected with go test -overlay; not part of /repo).
// Drives the real Merge on generated triples and writes one trace line per case.

import (
	"fmt"
	"reflect"
	"testing"

	vs "metacontroller/pkg/internal/verifsim"
)

func safeMerge(o, l, d map[string]interface{}) (res map[string]interface{}, errS string, panicS string) {
	defer func() {
		if r := recover(); r != nil {
			panicS = fmt.Sprint(r)
		}
	}()
	r, err := Merge(o, l, d)
	if err != nil {
		return nil, err.Error(), ""
	}
	return r, "", ""
}

func outcome(res map[string]interface{}, errS, panicS string) vs.M {
	switch {
	case panicS != "":
		return vs.M{"panic": panicS}
	case errS != "":
		return vs.M{"err": errS}
	default:
		return vs.M{"ok": res}
	}
}

func TestVerifMerge(t *testing.T) {
	seed, n := vs.Params(20000)
	out := vs.OpenOut()
	defer out.Close()
	for i := 0; i < n; i++ {
		if !vs.Mine(i) {
			continue
		}
		g := &vs.JGen{R: vs.CaseRand(seed, i), MaxDepth: 3}
		o, l, d := g.Triple()
		oc, lc, dc := vs.DeepCopy(o), vs.DeepCopy(l), vs.DeepCopy(d)
		var lIn map[string]interface{}
		if l != nil {
			lIn = l
		}
		res, errS, panicS := safeMerge(o, lIn, d)
		pure := reflect.DeepEqual(o, oc) && reflect.DeepEqual(d, dc) && (l == nil || reflect.DeepEqual(l, lc))
		line := vs.M{"kind": "merge", "case": i, "seed": seed, "o": oc, "d": dc, "out": outcome(res, errS, panicS), "pure": pure}
		if l != nil {
			line["l"] = lc
		} else {
			line["l"] = nil
		}
		if errS == "" && panicS == "" {
			// second application: desired re-applied to its own result
			rc := vs.DeepCopy(res).(map[string]interface{})
			res2, e2, p2 := safeMerge(rc, vs.DeepCopy(d).(map[string]interface{}), vs.DeepCopy(d).(map[string]interface{}))
			line["out2"] = outcome(res2, e2, p2)
		}
		out.Line(line)
	}
}
