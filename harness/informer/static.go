package informer

// Verification helper (injected with go -overlay; not part of /repo).

import (
	"k8s.io/apimachinery/pkg/runtime/schema"
	"k8s.io/client-go/dynamic/dynamiclister"
	"k8s.io/client-go/tools/cache"
)

// staticSharedInformer stands in for the underlying informer of a static cache: always synced, nothing else is used.
type staticSharedInformer struct{ cache.SharedIndexInformer }

func (staticSharedInformer) HasSynced() bool { return true }

// NewStaticResourceInformer wraps a plain indexer: listers read it, nothing runs.
func NewStaticResourceInformer(gvr schema.GroupVersionResource, indexer cache.Indexer) *ResourceInformer {
	sri := &sharedResourceInformer{
		informer: staticSharedInformer{},
		lister:   dynamiclister.New(indexer, gvr),
		close:    func() {},
	}
	sri.eventHandlers = newSharedEventHandler(sri.lister, 0)
	return newResourceInformer(sri)
}

// VerifCounts exposes the factory's bookkeeping.
func (f *SharedInformerFactory) VerifCounts() (refCount map[string]int, informers []string) {
	f.mutex.Lock()
	defer f.mutex.Unlock()
	refCount = map[string]int{}
	for k, v := range f.refCount {
		refCount[k] = v
	}
	for k := range f.sharedInformers {
		informers = append(informers, k)
	}
	return
}
