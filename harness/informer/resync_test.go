package informer

// A handler added with its own (short) resync period receives periodic replays of the cache from a private
// goroutine. Removing the subscription's handlers while such a round is in flight must end
// the deliveries: after the call returns the handler receives nothing (C18, "after which it receives nothing").
// On the unchanged tree this is deterministic: the removal waits for the private goroutine to exit.

import (
	"context"
	"fmt"
	"sync/atomic"
	"testing"
	"time"

	metav1 "k8s.io/apimachinery/pkg/apis/meta/v1"
	"k8s.io/client-go/rest"
	"k8s.io/client-go/tools/cache"

	dynamicclientset "metacontroller/pkg/dynamic/clientset"
	dynamicdiscovery "metacontroller/pkg/dynamic/discovery"
	vs "metacontroller/pkg/internal/verifsim"
)

func TestVerifInformerResync(t *testing.T) {
	seed, n := vs.Params(8)
	out := vs.OpenOut()
	defer out.Close()
	for i := 0; i < n; i++ {
		if !vs.Mine(i) {
			continue
		}
		r := vs.CaseRand(seed, i)
		sim := vs.NewSim(infDefs)
		sim.Quiet = true
		resources := dynamicdiscovery.NewStaticResourceMap(resourceLists(infDefs))
		dyn, err := dynamicclientset.New(&rest.Config{Host: sim.URL()}, resources)
		if err != nil {
			t.Fatal(err)
		}
		c, err := dyn.Resource(infDefs[0].APIVersion(), infDefs[0].Resource)
		if err != nil {
			t.Fatal(err)
		}
		objects := 15 + r.Intn(20)
		for k := 0; k < objects; k++ {
			o := map[string]interface{}{"apiVersion": infDefs[0].APIVersion(), "kind": infDefs[0].Kind,
				"metadata": map[string]interface{}{"name": fmt.Sprintf("o%d", k), "namespace": "ns1"}}
			sim.Put(infDefs[0].Group, infDefs[0].Resource, o)
		}
		_ = c
		f := NewSharedInformerFactory(dyn, 10*time.Minute)
		// a second subscriber keeps the informer alive and must be unaffected
		other, err := f.Resource(infDefs[0].APIVersion(), infDefs[0].Resource)
		if err != nil {
			t.Fatal(err)
		}
		var otherCount int64
		// objects reach it as adds (listed after the handler was registered) or as the replay of the cache (registered after the list)
		other.Informer().AddEventHandler(cache.ResourceEventHandlerFuncs{
			AddFunc:    func(interface{}) { atomic.AddInt64(&otherCount, 1) },
			UpdateFunc: func(a, b interface{}) { atomic.AddInt64(&otherCount, 1) },
		})
		ri, err := f.Resource(infDefs[0].APIVersion(), infDefs[0].Resource)
		if err != nil {
			t.Fatal(err)
		}
		waitFor(func() bool { return ri.Informer().HasSynced() }, 5*time.Second)
		var count int64
		slow := time.Duration(1+r.Intn(3)) * time.Millisecond
		h := cache.ResourceEventHandlerFuncs{
			AddFunc:    func(interface{}) { atomic.AddInt64(&count, 1) },
			UpdateFunc: func(a, b interface{}) { atomic.AddInt64(&count, 1); time.Sleep(slow) },
		}
		period := time.Duration(20+r.Intn(30)) * time.Millisecond
		ri.Informer().AddEventHandlerWithResyncPeriod(h, period)
		// wait until a private resync round is under way (replay on add delivered `objects` adds first)
		mid := int64(objects + 3 + r.Intn(objects/2))
		waitFor(func() bool { return atomic.LoadInt64(&count) >= mid }, 5*time.Second)
		// handlers are removed with RemoveEventHandlers (Close alone only gives up the reference: the package documents that
		// handlers have to be removed first), then the subscription is closed
		viaClose := false
		ri.Informer().RemoveEventHandlers()
		if r.Bool() {
			ri.Close()
			viaClose = true
		}
		atRemoval := atomic.LoadInt64(&count)
		time.Sleep(4*period + 40*time.Millisecond)
		after := atomic.LoadInt64(&count)
		otherSeen := atomic.LoadInt64(&otherCount)
		out.Line(vs.M{"kind": "informer-resync", "case": i, "seed": seed, "objects": objects, "periodMs": int(period / time.Millisecond),
			"viaClose": viaClose, "reachedRound": atRemoval >= mid, "atRemoval": atRemoval, "after": after, "otherSawAll": otherSeen >= int64(objects)})
		other.Close()
		if !viaClose {
			ri.Close()
		}
		dynCloseIdle(sim)
		_ = context.TODO
		_ = metav1.ListOptions{}
	}
}

func dynCloseIdle(sim *vs.Sim) {
	sim.Server.CloseClientConnections()
	sim.Close()
}
