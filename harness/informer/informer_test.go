package informer

// Shared informer factory: reference counting, start/stop, handler replay, delivery and isolation.
// The real factory runs against the simulated API server (LIST/WATCH); an operation sequence is
// generated, executed, and what each handler received / what the server saw is written per operation.

import (
	"context"
	"fmt"
	"sort"
	"sync"
	"testing"
	"time"

	metav1 "k8s.io/apimachinery/pkg/apis/meta/v1"
	"k8s.io/apimachinery/pkg/apis/meta/v1/unstructured"
	"k8s.io/client-go/rest"
	"k8s.io/client-go/tools/cache"

	dynamicclientset "metacontroller/pkg/dynamic/clientset"
	dynamicdiscovery "metacontroller/pkg/dynamic/discovery"
	vs "metacontroller/pkg/internal/verifsim"
)

var infDefs = []vs.ResourceDef{
	{Group: "example.com", Version: "v1", Resource: "widgets", Kind: "Widget", Namespaced: true},
	{Group: "", Version: "v1", Resource: "configmaps", Kind: "ConfigMap", Namespaced: true},
}

func resourceLists(defs []vs.ResourceDef) []*metav1.APIResourceList {
	by := map[string]*metav1.APIResourceList{}
	var order []string
	for _, d := range defs {
		gv := d.APIVersion()
		l := by[gv]
		if l == nil {
			l = &metav1.APIResourceList{GroupVersion: gv}
			by[gv] = l
			order = append(order, gv)
		}
		l.APIResources = append(l.APIResources, metav1.APIResource{Name: d.Resource, Kind: d.Kind, Namespaced: d.Namespaced, Group: d.Group, Version: d.Version})
	}
	var out []*metav1.APIResourceList
	for _, gv := range order {
		out = append(out, by[gv])
	}
	return out
}

type delivery struct {
	Handler int    `json:"h"`
	Type    string `json:"t"` // add | update | resync (update with old == new) | delete
	Name    string `json:"n"`
}

type recorder struct {
	mu  sync.Mutex
	got []delivery
}

func (r *recorder) add(d delivery) { r.mu.Lock(); r.got = append(r.got, d); r.mu.Unlock() }
func (r *recorder) take() []delivery {
	r.mu.Lock()
	defer r.mu.Unlock()
	out := r.got
	r.got = nil
	sort.Slice(out, func(i, j int) bool {
		a, b := out[i], out[j]
		if a.Handler != b.Handler {
			return a.Handler < b.Handler
		}
		if a.Name != b.Name {
			return a.Name < b.Name
		}
		return a.Type < b.Type
	})
	if out == nil {
		out = []delivery{}
	}
	return out
}
func (r *recorder) count(h int, name string) int {
	r.mu.Lock()
	defer r.mu.Unlock()
	n := 0
	for _, d := range r.got {
		if d.Handler == h && d.Name == name {
			n++
		}
	}
	return n
}

func recSnapshot(r *recorder) []delivery {
	r.mu.Lock()
	defer r.mu.Unlock()
	return append([]delivery{}, r.got...)
}

func nameOf(obj interface{}) string {
	switch o := obj.(type) {
	case *unstructured.Unstructured:
		return o.GetName()
	case cache.DeletedFinalStateUnknown:
		if u, ok := o.Obj.(*unstructured.Unstructured); ok {
			return u.GetName()
		}
	}
	return "?"
}

func handlerFor(rec *recorder, id int) cache.ResourceEventHandler {
	return cache.ResourceEventHandlerFuncs{
		AddFunc: func(obj interface{}) { rec.add(delivery{id, "add", nameOf(obj)}) },
		UpdateFunc: func(old, cur interface{}) {
			t := "update"
			if old.(*unstructured.Unstructured).GetResourceVersion() == cur.(*unstructured.Unstructured).GetResourceVersion() {
				t = "resync"
			}
			rec.add(delivery{id, t, nameOf(cur)})
		},
		DeleteFunc: func(obj interface{}) { rec.add(delivery{id, "delete", nameOf(obj)}) },
	}
}

func countLog(sim *vs.Sim, verb, resource string) int {
	n := 0
	for _, e := range sim.LogCopy() {
		if e.Verb == verb && e.Resource == resource {
			n++
		}
	}
	return n
}

func waitFor(cond func() bool, d time.Duration) bool {
	deadline := time.Now().Add(d)
	for time.Now().Before(deadline) {
		if cond() {
			return true
		}
		time.Sleep(2 * time.Millisecond)
	}
	return cond()
}

type subState struct {
	res      int
	ri       *ResourceInformer
	instance int // which informer instance (generation counter of the resource) it is attached to
	open     bool
	handlers []int
}

func TestVerifInformer(t *testing.T) {
	seed, n := vs.Params(60)
	out := vs.OpenOut()
	defer out.Close()
	for i := 0; i < n; i++ {
		if !vs.Mine(i) {
			continue
		}
		r := vs.CaseRand(seed, i)
		sim := vs.NewSim(infDefs)
		resources := dynamicdiscovery.NewStaticResourceMap(resourceLists(infDefs))
		dyn, err := dynamicclientset.New(&rest.Config{Host: sim.URL()}, resources)
		if err != nil {
			t.Fatal(err)
		}
		clients := []*dynamicclientset.ResourceClient{}
		for _, d := range infDefs {
			c, err := dyn.Resource(d.APIVersion(), d.Resource)
			if err != nil {
				t.Fatal(err)
			}
			clients = append(clients, c)
		}
		mk := func(res int, name string, v int) *unstructured.Unstructured {
			d := infDefs[res]
			return &unstructured.Unstructured{Object: map[string]interface{}{"apiVersion": d.APIVersion(), "kind": d.Kind,
				"metadata": map[string]interface{}{"name": name, "namespace": "ns1"}, "spec": map[string]interface{}{"v": int64(v)}}}
		}
		// initial contents
		exists := []map[string]bool{{}, {}}
		var initial [][]string
		for res := range infDefs {
			var names []string
			for k := 0; k < r.Intn(3); k++ {
				name := fmt.Sprintf("o%d", k)
				if _, err := clients[res].Namespace("ns1").Create(context.TODO(), mk(res, name, 0), metav1.CreateOptions{}); err != nil {
					t.Fatal(err)
				}
				exists[res][name] = true
				names = append(names, name)
			}
			if names == nil {
				names = []string{}
			}
			initial = append(initial, names)
		}
		sim.ResetLog()
		f := NewSharedInformerFactory(dyn, 10*time.Minute)
		rec := &recorder{}
		subs := []*subState{}
		instance := []int{0, 0} // informer instances started so far per resource
		running := []bool{false, false}
		openCount := []int{0, 0}
		nextHandler := 0
		var ops []vs.M
		nops := 6 + r.Intn(12)
		for k := 0; k < nops; k++ {
			op := vs.M{}
			var extra vs.M
			extraHandler := -1
			listBefore := []int{countLog(sim, "list", "widgets"), countLog(sim, "list", "configmaps")}
			closedBefore := []int{countLog(sim, "watch-closed", "widgets"), countLog(sim, "watch-closed", "configmaps")}
			choice := r.Intn(12)
			// now and then somebody asks for a resource discovery does not know: that subscription fails and must leave no trace
			failedSubscribe := false
			if r.Chance(15) {
				if _, err := f.Resource("example.com/v1", "nonesuch"); err == nil {
					t.Fatal("subscription to an unknown resource succeeded")
				}
				failedSubscribe = true
			}
			var openSubs []int
			for si, s := range subs {
				if s.open {
					openSubs = append(openSubs, si)
				}
			}
			switch {
			case choice < 2 || len(subs) == 0:
				res := r.Intn(2)
				ri, err := f.Resource(infDefs[res].APIVersion(), infDefs[res].Resource)
				if err != nil {
					t.Fatal(err)
				}
				if !running[res] {
					instance[res]++
					running[res] = true
					// wait until the new informer has listed and its watch is established
					wBefore := countLog(sim, "watch", infDefs[res].Resource)
					_ = wBefore
					waitFor(func() bool {
						return ri.Informer().HasSynced() && countLog(sim, "watch", infDefs[res].Resource) >= instance[res]
					}, 5*time.Second)
				}
				openCount[res]++
				subs = append(subs, &subState{res: res, ri: ri, instance: instance[res], open: true})
				op = vs.M{"op": "subscribe", "res": res, "sub": len(subs) - 1}
			case choice < 3 && len(openSubs) > 0:
				si := openSubs[r.Intn(len(openSubs))]
				s := subs[si]
				s.ri.Close()
				s.open = false
				openCount[s.res]--
				if openCount[s.res] == 0 {
					running[s.res] = false
					want := closedBefore[s.res] + 1
					waitFor(func() bool { return countLog(sim, "watch-closed", infDefs[s.res].Resource) >= want }, 5*time.Second)
				}
				op = vs.M{"op": "close", "sub": si}
			case choice < 6:
				// handlers are added through open subscriptions (adding through a closed one is misuse the property does not cover)
				if len(openSubs) == 0 {
					k--
					continue
				}
				si := openSubs[r.Intn(len(openSubs))]
				s := subs[si]
				h := nextHandler
				nextHandler++
				own := r.Chance(30)
				// sometimes an outside write lands while the handler is being added (another goroutine is inside
				// AddEventHandler, replaying the cache): the new handler must still see it
				var names []string
				for nm := range exists[s.res] {
					names = append(names, nm)
				}
				sort.Strings(names)
				if len(names) > 0 && s.instance == instance[s.res] && running[s.res] && r.Chance(35) {
					name := names[r.Intn(len(names))]
					inReplay, release, done := make(chan struct{}), make(chan struct{}), make(chan struct{})
					var once sync.Once
					base := handlerFor(rec, h)
					gated := cache.ResourceEventHandlerFuncs{
						AddFunc: func(o interface{}) { base.OnAdd(o, false) },
						UpdateFunc: func(a, b interface{}) {
							base.OnUpdate(a, b)
							once.Do(func() {
								close(inReplay)
								select {
								case <-release:
								case <-time.After(400 * time.Millisecond):
								}
							})
						},
						DeleteFunc: func(o interface{}) { base.OnDelete(o) },
					}
					go func() {
						_, _ = s.ri.Informer().AddEventHandler(gated)
						close(done)
					}()
					select {
					case <-inReplay:
					case <-time.After(time.Second):
					}
					c := clients[s.res].Namespace("ns1")
					cur, gerr := c.Get(context.TODO(), name, metav1.GetOptions{})
					if gerr != nil {
						t.Fatal(gerr)
					}
					cur.Object["spec"] = map[string]interface{}{"v": int64(1000 + k)}
					if _, err := c.Update(context.TODO(), cur, metav1.UpdateOptions{}); err != nil {
						t.Fatal(err)
					}
					// give the broadcast a chance to overtake the registration (it must not), then let the replay finish
					var others []int
					for _, o := range subs {
						if o.res == s.res && o.instance == instance[s.res] {
							others = append(others, o.handlers...)
						}
					}
					waitFor(func() bool {
						for _, oh := range others {
							if rec.count(oh, name) == 0 {
								return false
							}
						}
						return len(others) > 0
					}, 120*time.Millisecond)
					close(release)
					<-done
					s.handlers = append(s.handlers, h)
					all := append(append([]int{}, others...), h)
					waitFor(func() bool {
						for _, oh := range all {
							n := 0
							for _, d := range recSnapshot(rec) {
								if d.Handler == oh && d.Name == name && d.Type != "resync" {
									n++
								}
							}
							if n == 0 {
								return false
							}
						}
						return true
					}, 5*time.Second)
					op = vs.M{"op": "addHandler", "sub": si, "handler": h, "ownResync": false, "concurrentEvent": true}
					extra = vs.M{"op": "event", "res": s.res, "type": "update", "name": name, "concurrentWithAdd": true}
					extraHandler = h
					break
				}
				if own {
					_, _ = s.ri.Informer().AddEventHandlerWithResyncPeriod(handlerFor(rec, h), 5*time.Minute)
				} else {
					_, _ = s.ri.Informer().AddEventHandler(handlerFor(rec, h))
				}
				s.handlers = append(s.handlers, h)
				op = vs.M{"op": "addHandler", "sub": si, "handler": h, "ownResync": own}
			case choice < 7:
				si := r.Intn(len(subs))
				s := subs[si]
				s.ri.Informer().RemoveEventHandlers()
				s.handlers = nil
				op = vs.M{"op": "removeHandlers", "sub": si}
			default:
				res := r.Intn(2)
				name := fmt.Sprintf("o%d", r.Intn(3))
				typ := "create"
				if exists[res][name] {
					typ = r.Pick([]string{"update", "update", "delete"})
				}
				c := clients[res].Namespace("ns1")
				switch typ {
				case "create":
					_, err = c.Create(context.TODO(), mk(res, name, 0), metav1.CreateOptions{})
					exists[res][name] = true
				case "update":
					cur, gerr := c.Get(context.TODO(), name, metav1.GetOptions{})
					if gerr != nil {
						t.Fatal(gerr)
					}
					cur.Object["spec"] = map[string]interface{}{"v": int64(k + 1)}
					_, err = c.Update(context.TODO(), cur, metav1.UpdateOptions{})
				case "delete":
					err = c.Delete(context.TODO(), name, metav1.DeleteOptions{})
					delete(exists[res], name)
				}
				if err != nil {
					t.Fatal(err)
				}
				// expected receivers: handlers attached to the instance of this resource that is running now
				var expect []int
				if running[res] {
					for _, s := range subs {
						if s.res == res && s.instance == instance[res] {
							expect = append(expect, s.handlers...)
						}
					}
				}
				waitFor(func() bool {
					for _, h := range expect {
						if rec.count(h, name) == 0 {
							return false
						}
					}
					return true
				}, 5*time.Second)
				op = vs.M{"op": "event", "res": res, "type": typ, "name": name}
			}
			time.Sleep(25 * time.Millisecond) // settle: stray deliveries would show up here
			dels := rec.take()
			if extra != nil {
				// the concurrent pair is recorded as "add handler, then the event": the replay belongs to the first
				var first, second []delivery
				for _, d := range dels {
					if d.Handler == extraHandler && d.Type == "resync" {
						first = append(first, d)
					} else {
						second = append(second, d)
					}
				}
				if first == nil {
					first = []delivery{}
				}
				if second == nil {
					second = []delivery{}
				}
				dels = first
				extra["deliveries"] = second
			}
			op["deliveries"] = dels
			op["lists"] = []int{countLog(sim, "list", "widgets") - listBefore[0], countLog(sim, "list", "configmaps") - listBefore[1]}
			op["watchClosed"] = []int{countLog(sim, "watch-closed", "widgets") - closedBefore[0], countLog(sim, "watch-closed", "configmaps") - closedBefore[1]}
			rc, infs := f.VerifCounts()
			sort.Strings(infs)
			op["refCount"] = rc
			op["failedSubscribe"] = failedSubscribe
			op["informers"] = infs
			ops = append(ops, op)
			if extra != nil {
				for _, kk := range []string{"lists", "watchClosed", "refCount", "informers"} {
					extra[kk] = op[kk]
				}
				extra["lists"], extra["watchClosed"] = []int{0, 0}, []int{0, 0}
				ops = append(ops, extra)
			}
		}
		// shut everything down
		for _, s := range subs {
			if s.open {
				s.ri.Informer().RemoveEventHandlers()
				s.ri.Close()
			}
		}
		out.Line(vs.M{"kind": "informer", "case": i, "seed": seed, "initial": initial, "ops": ops,
			"keys": []string{"widgets.example.com/v1", "configmaps.v1"}})
		sim.Server.CloseClientConnections() // a leaked informer's watch must not keep Close() waiting
		sim.Close()
	}
}
