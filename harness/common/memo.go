package common

// Verification helper (injected with go -overlay; not part of /repo): access to the
// process-global server-side-apply memo.

// VerifMemoEntry is one entry of lastUpdatedCache.
type VerifMemoEntry struct {
	Key        string
	Hash       uint64
	Generation int64
}

func VerifMemoDump() []VerifMemoEntry {
	cacheLock.RLock()
	defer cacheLock.RUnlock()
	out := make([]VerifMemoEntry, 0, len(lastUpdatedCache))
	for k, v := range lastUpdatedCache {
		out = append(out, VerifMemoEntry{Key: k, Hash: v.hash, Generation: v.resourcegeneration})
	}
	return out
}

func VerifMemoReset() {
	cacheLock.Lock()
	defer cacheLock.Unlock()
	for k := range lastUpdatedCache {
		delete(lastUpdatedCache, k)
	}
}
