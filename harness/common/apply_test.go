package common

// Verification harness (injected with go test -overlay; not part of /repo).

import (
	"fmt"
	"reflect"
	"testing"

	"k8s.io/apimachinery/pkg/apis/meta/v1/unstructured"

	vs "metacontroller/pkg/internal/verifsim"
)

func safeApply(orig, update map[string]interface{}) (res map[string]interface{}, errS, panicS string) {
	defer func() {
		if r := recover(); r != nil {
			panicS = fmt.Sprint(r)
		}
	}()
	n, err := ApplyUpdate(&unstructured.Unstructured{Object: orig}, &unstructured.Unstructured{Object: update})
	if err != nil {
		return nil, err.Error(), ""
	}
	return n.Object, "", ""
}

func applyOutcome(res map[string]interface{}, errS, panicS string) vs.M {
	switch {
	case panicS != "":
		return vs.M{"panic": panicS}
	case errS != "":
		return vs.M{"err": errS}
	default:
		return vs.M{"ok": vs.CanonObj(res)}
	}
}

// TestVerifApply drives the real ApplyUpdate.
func TestVerifApply(t *testing.T) {
	seed, n := vs.Params(10000)
	out := vs.OpenOut()
	defer out.Close()
	for i := 0; i < n; i++ {
		if !vs.Mine(i) {
			continue
		}
		g := vs.NewOGen(vs.CaseRand(seed, i))
		orig, update := g.ApplyPair()
		oc := vs.DeepCopy(orig).(map[string]interface{})
		uc := vs.DeepCopy(update).(map[string]interface{})
		res, errS, panicS := safeApply(orig, update)
		line := vs.M{"kind": "apply", "case": i, "seed": seed, "orig": vs.CanonObj(oc), "update": vs.CanonObj(uc),
			"out": applyOutcome(res, errS, panicS), "origPure": reflect.DeepEqual(orig, oc), "updatePure": reflect.DeepEqual(update, uc)}
		if errS == "" && panicS == "" {
			line["equal"] = DeepEqual(res, oc)
			// re-apply the same desired state to the result
			rc := vs.DeepCopy(res).(map[string]interface{})
			res2, e2, p2 := safeApply(rc, vs.DeepCopy(uc).(map[string]interface{}))
			line["out2"] = applyOutcome(res2, e2, p2)
			if e2 == "" && p2 == "" {
				line["equal2"] = DeepEqual(res2, res)
			}
		}
		out.Line(line)
	}
}
