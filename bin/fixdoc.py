#!/usr/bin/env python3
"""turn '/-- doc -/' directly before 'mutual' into line comments (Lean rejects doc comments there)"""
import re, sys
for p in sys.argv[1:]:
    s = open(p).read()
    def fix(m):
        lines = ['-- ' + l.strip() for l in m.group(1).strip().split('\n')]
        return '\n'.join(lines) + '\nmutual'
    s2 = re.sub(r'/--((?:(?!-/).)*?)-/\nmutual', fix, s, flags=re.S)
    if s2 != s:
        open(p, 'w').write(s2)
