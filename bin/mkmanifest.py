#!/usr/bin/env python3
"""Regenerate MANIFEST.json from bin/registry.py: every property with an entry in PROPS is claimed, the others are
listed under not_applicable. Texts of existing checks are kept; new ones come from LEVEL below."""
import json, os, sys
here = os.path.dirname(os.path.abspath(__file__))
sys.path.insert(0, here)
from registry import PROPS
root = os.path.dirname(here)
mp = os.path.join(root, "MANIFEST.json")
m = json.load(open(mp))
NOTE_SYNC = ("trusted: Lean kernel (+propext, Quot.sound, Classical.choice), Go harness + API-server simulator + generators, driver JSON reader, "
             "fact extractor; modelled not verified: Kubernetes API server semantics, client-go, apimachinery accessors/selectors")
LEVEL = {
    "C07": ("Lean theorems about the model of syncRollingUpdate (gate = every child of the latest revision observed, up to date and passing its checks; at most one gated move, "
            "the first pending child in hook order; condition upsert; claim filtering); every real sync with a rolling strategy is replayed against the model and judged by an "
            "oracle computed from the cached revisions, the hook answers and the revisions/children/status actually written; whole rollouts are run too", NOTE_SYNC,
            "Lean 4 proof over a hand-written model + trace-replay correspondence check"),
    "C08": ("Lean theorems for the per-sync progress facts (gate open and a pending child => exactly that child moves; nothing pending => Updated=True; waiting => some child of the "
            "latest revision is unhealthy); the closed-loop bound (completion within 2n+4 syncs under a fair environment, pruning to one revision) is checked on whole rollouts of "
            "the real controller, not proved: partial", NOTE_SYNC + "; not proved: the induction over rounds with the API server and the fair environment in the loop",
            "Lean 4 proof (per-sync progress lemmas) + whole-rollout correspondence runs"),
    "C15": ("Lean theorems about the model of the customize manager: selection type table, what a rule lists is what the trigger predicate accepts (listed => triggers), "
            "invalid mixes / foreign namespaces / unknown resources are errors, one hook request per (UID, generation) while cached; every real sync with a customize hook is "
            "replayed against the model and its related map compared with a selection computed from the statement; related-object events are delivered to the real handlers "
            "and every selected object must wake its parent", NOTE_SYNC, "Lean 4 proof over a hand-written model + trace-replay and event correspondence checks"),
    "C20": ("Lean theorems about the reconcile state machine for every event history: the running set follows the last spec (constructible -> that spec, otherwise nothing, never the "
            "previous one), one instance per name, an update that leaves the spec alone does nothing, delete stops, other controllers untouched, and the factory's subscription counts "
            "always equal those of the running instances - including constructors that fail after opening informers (no leak); the real Reconcile of both meta-controllers is driven "
            "through generated histories with real hosted controllers and compared with the model event by event; goroutine shutdown inside Stop() is observed, not modelled",
            "trusted: Lean kernel (+propext, Quot.sound, Classical.choice), Go harness (fake client, LIST/WATCH simulator, webhook server), driver JSON reader; modelled not verified: "
            "controller-runtime, client-go informers/work queues, goroutine scheduling", "Lean 4 proof over a hand-written state machine + event-history correspondence check"),
    "C17": ("partial. Lean theorems: for an abstract reader/writer lock, in every reachable state two threads never hold it in conflicting modes, so accesses that obey the discipline "
            "(writes under the exclusive lock, reads under any) never race - for every trace and any number of threads; the table of accesses to metacontroller's process-wide maps "
            "with the lock held at each is re-extracted from the working tree on every run and proved (decide) to obey the discipline. The cache-read-only half is judged on every "
            "replayed sync by fingerprinting all cached objects before and after; concurrent workers run under the race detector as failing-input search. Not covered: the Go memory "
            "model, aliasing the extractor cannot see, equivalence of concurrent and sequential syncs (only observed through the fingerprints)",
            NOTE_SYNC + "; the access extractor is intra-procedural and syntactic", "Lean 4 proof (lock discipline) over re-extracted access facts + trace-replay cache fingerprints + race-detector runs"),
    "C18": ("Lean theorems about the factory/handler state machine for every operation sequence: an inductive invariant (an informer runs exactly while a subscription to it is open, "
            "one running informer per resource), reference count = open subscriptions, fresh informer after the last close, replay on add, delivery to exactly the registered handlers, "
            "silence after removal, isolation between subscriptions; the real factory is driven through generated operation sequences against a LIST/WATCH simulator and compared with "
            "the model step by step; timers and goroutine scheduling are not modelled",
            "trusted: Lean kernel (+propext, Quot.sound, Classical.choice), Go harness + LIST/WATCH simulator, driver JSON reader; modelled not verified: client-go shared informers, timers",
            "Lean 4 proof over a hand-written state machine + operation-sequence correspondence check"),
    "C14": ("Lean theorems: for every event and every cache with unique keys, the handler models enqueue exactly the parents named by a declarative specification "
            "(soundness and completeness per handler, composite and decorator; replays silent; unadmitted parents never queued; a controlled child wakes at most one parent); "
            "the real handlers are called with generated events and their queue contents compared with the model and judged by the specification", NOTE_SYNC,
            "Lean 4 proof over a hand-written model + event correspondence check"),
    "C01": ("Lean theorems: at a fixpoint (every desired child observed and already equal to its merged state, nothing undesired) ManageChildren issues no request, for every update "
            "method; one more application of the same desired state is a no-op (from C05 idempotence); real convergence scenarios (9 syncs from generated cluster contents, fresh "
            "caches, fair environment) are replayed sync by sync against the model and judged for quiescence, owned = desired and field values; convergence itself is observed, not proved: partial",
            NOTE_SYNC + "; not proved: the bounded-convergence induction over syncs with the API server in the loop", "Lean 4 proof (quiescence at the fixpoint) + multi-sync correspondence runs"),
}
checks = {c["property_id"]: c for c in m["checks"]}
for pid in sorted(PROPS):
    if pid not in checks:
        text, note, tech = LEVEL[pid]
        checks[pid] = {"property_id": pid, "quick_cmd": "bin/check %s --tier quick" % pid, "thorough_cmd": "bin/check %s --tier thorough" % pid,
                       "evidence_file": "evidence/%s.json" % pid, "replay_cmd_template": "bin/check %s --replay {path}" % pid, "engine": "mc-lean",
                       "level_claimed": {"category": "proof", "text": text, "design_ref": "DESIGN.md §3 %s" % pid}, "level_note": note, "technique": tech}
m["checks"] = [checks[p] for p in sorted(checks) if p in PROPS]
claimed = sorted(PROPS)
for e in m["engines"]:
    e["serves_properties"] = claimed
allp = [json.loads(l)["id"] for l in open(os.path.join(root, "properties.jsonl"))]
old_na = {e["property_id"]: e["reason"] for e in m.get("not_applicable", [])}
m["not_applicable"] = [{"property_id": p, "reason": old_na.get(p, "check not built yet (work in progress, see DESIGN.md §7)")} for p in allp if p not in PROPS]
json.dump(m, open(mp, "w"), indent=1)
print("claimed:", claimed, "not_applicable:", [e["property_id"] for e in m["not_applicable"]])
