#!/usr/bin/env python3
import json,collections,sys
c=collections.Counter(); tags=collections.Counter(); ex={}
for l in open(sys.argv[1]):
    r=json.loads(l); r.pop('sig',None)
    c['agree' if r['agree'] else 'disagree']+=1
    for k,v in r['props'].items(): c[k+('+' if v else '-')]+=1
    for t in r['tags']: tags[t]+=1
    if not r['agree'] and ('d:'+r['where'][:40]) not in ex and len(ex)<8: ex['d:'+r['where'][:40]]=r
    if any(not v for v in r['props'].values()) and r['clause'] not in ex: ex[r['clause']]=r
print(c); print(tags)
for k,v in ex.items(): print('==',k, json.dumps(v)[:int(sys.argv[2]) if len(sys.argv)>2 else 700])
