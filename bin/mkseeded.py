#!/usr/bin/env python3
"""Copy the confirmed seeded changes from the sub-agents' output directories into /verif/seeded/<id>/
(patch.diff, the demonstration, meta.json). Development helper; no registered command uses it."""
import json, os, shutil, sys
SRC = "/tmp/seed-out"
DST = os.path.join(os.path.dirname(os.path.dirname(os.path.abspath(__file__))), "seeded")
# change -> (checks whose oracle produced a failing real trace, checks that reported only a broken correspondence / obligation, note)
CAUGHT = {
 "C01/A": (["C01", "C05"], [], ""), "C01/B": (["C01", "C05"], [], ""),
 "C02/A": (["C02"], ["C06"], ""), "C02/B": (["C02"], ["C16"], ""),
 "C03/A": (["C03"], [], "needs the interleave stream"), "C03/B": (["C03", "C02"], [], ""),
 "C04/A": (["C04", "C02"], [], "needs the interleave stream"), "C04/B": (["C04"], [], "needs the interleave stream"),
 "C05/A": (["C05"], [], ""), "C05/B": (["C05"], [], ""),
 "C06/A": (["C06"], [], ""), "C06/B": (["C05"], ["C06", "C01"], "C06's own oracle sees it only across two syncs; C05 judges ApplyUpdate directly"),
 "C07/A": (["C07"], ["C08"], ""), "C07/B": (["C07"], [], ""),
 "C08/A": (["C08"], [], ""), "C08/B": (["C08"], ["C07"], ""),
 "C09/A": (["C07", "C08", "C17"], ["C09"], "same change as C17/A"), "C09/B": (["C09", "C12"], [], "needs the aimed fault on a ControllerRevision write"),
 "C10/A": (["C10", "C12"], [], "needs a persistent conflict"), "C10/B": (["C10"], [], "needs the rollout-with-deletion scenario"),
 "C11/A": (["C11"], [], ""), "C11/B": (["C11"], [], ""),
 "C12/A": (["C12"], [], ""), "C12/B": (["C12"], [], "needs the malformed stream on a rolling controller"),
 "C13/A": (["C13"], ["C16"], ""), "C13/B": (["C19"], [], "not caught by C13: its harness keeps no ETag cache across syncs; the transport property C19 catches it"),
 "C14/A": (["C14"], [], ""), "C14/B": (["C14"], [], ""),
 "C15/A": (["C15", "C14"], [], ""),
 "C15/B": ([], [], "NOT CAUGHT: needs two goroutines inside getRelatedClient at once; the patch no longer applies after fix 8ec82a2, which rewrote that function (every caller now waits for the informer to sync)"),
 "C16/A": (["C16"], [], ""), "C16/B": (["C02"], ["C16"], ""),
 "C17/A": (["C17", "C07"], ["C09"], "same change as C09/A"),
 "C17/B": ([], ["C17"], "caught statically: the re-extracted access table no longer satisfies C17_accesses_locked (write under a read lock); reported with no-failing-input-found"),
 "C18/A": (["C18"], [], ""),
 "C18/B": (["C18"], [], "needs the concurrent operation of the informer stream: an outside write is made while another goroutine is inside AddEventHandler (the new handler's replay is held open)"),
 "C19/A": (["C19"], [], ""), "C19/B": (["C19"], [], ""),
 "C20/A": (["C20"], [], ""),
 "C20/B": ([], [], "no longer breaks the property on the current tree: fix a6c157f removes the old instance from the map before the constructor runs, so the dropped delete is unreachable"),
}
os.makedirs(DST, exist_ok=True)
for key, (oracle, corr, note) in sorted(CAUGHT.items()):
    prop, ab = key.split("/")
    src = os.path.join(SRC, prop, ab)
    if not os.path.isdir(src):
        print("missing", key); continue
    dst = os.path.join(DST, "%s-%s" % (prop, ab))
    os.makedirs(dst, exist_ok=True)
    for f in os.listdir(src):
        if f.startswith("."):
            continue
        if f.endswith(".go") or f in ("patch.diff", "demo_where.txt"):
            shutil.copy(os.path.join(src, f), os.path.join(dst, f + (".txt" if f.endswith("_test.go") else "")))
    meta = {}
    try:
        meta = json.load(open(os.path.join(src, "meta.json")))
    except Exception:
        pass
    conf = {}
    try:
        conf = json.loads(open(os.path.join(src, ".confirmed")).read().strip())
    except Exception:
        pass
    out = {
        "property": prop,
        "summary": meta.get("summary", ""),
        "why_it_breaks": meta.get("why_it_breaks", ""),
        "needs": meta.get("needs", ""),
        "written_by": "fresh sub-agent given only the property text and a scratch worktree of /repo",
        "confirmed_independently": conf,
        "confirmed_how": "bin/confirmseed <dir>: scratch worktree of /repo HEAD; git apply; go build ./...; go test -vet=off -count=1 ./... (green); demonstration copied into the package named in demo_where.txt fails with the patch and passes without",
        "ran_against_checks": "bin/tryseed <dir> <ids>: committed /verif + scratch worktree carrying the patch (VERIF_REPO), quick tier",
        "caught_by_oracle": oracle, "caught_by_correspondence_or_obligation_only": corr, "note": note,
        "demonstration": "demo_test.go.txt (stored with a .txt suffix so that no Go tool picks it up here); copy it as demo_test.go into the directory named in demo_where.txt",
    }
    json.dump(out, open(os.path.join(dst, "meta.json"), "w"), indent=1)
print("seeded:", len(os.listdir(DST)))
