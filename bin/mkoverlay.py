#!/usr/bin/env python3
"""Generate the go -overlay file that injects the harness into a metacontroller tree.
usage: mkoverlay.py <repo> <out.json>"""
import json, os, sys
repo, out = os.path.abspath(sys.argv[1]), sys.argv[2]
H = os.path.join(os.path.dirname(os.path.dirname(os.path.abspath(__file__))), "harness")
# harness dir -> package dir in the repo ; files ending _test.go are injected as zz_verif_*_test.go
MAP = {
    "verifsim": "pkg/internal/verifsim",
    "apply": "pkg/dynamic/apply",
    "common": "pkg/controller/common",
    "composite": "pkg/controller/composite",
    "decorator": "pkg/controller/decorator",
    "customize": "pkg/controller/common/customize",
    "informer": "pkg/dynamic/informer",
    "hooks": "pkg/hooks",
    "controllerref": "pkg/dynamic/controllerref",
    "k8s": "pkg/third_party/kubernetes",
    "object": "pkg/dynamic/object",
    "apiv2": "pkg/controller/common/api/v2",
    "discovery": "pkg/dynamic/discovery",
}
rep = {}
for d, pkg in MAP.items():
    src = os.path.join(H, d)
    if not os.path.isdir(src):
        continue
    for f in sorted(os.listdir(src)):
        if f.endswith(".go"):
            rep[os.path.join(repo, pkg, "zz_verif_" + f)] = os.path.join(src, f)
json.dump({"Replace": rep}, open(out, "w"), indent=1)
