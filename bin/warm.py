#!/usr/bin/env python3
"""pre-build every harness binary (warms the Go build cache so that checks link in seconds)"""
import os, sys
sys.path.insert(0, os.path.dirname(os.path.abspath(__file__)))
import importlib.machinery, importlib.util
loader = importlib.machinery.SourceFileLoader("check", os.path.join(os.path.dirname(os.path.abspath(__file__)), "check"))
spec = importlib.util.spec_from_loader("check", loader)
check = importlib.util.module_from_spec(spec)
loader.exec_module(check)
from registry import PROPS
log = []
digest = check.tree_digest()
pkgs = sorted({(s["pkg"], s.get("race", False)) for p in PROPS.values() for s in p.get("streams", [])})
for pkg, race in pkgs:
    b = check.build_harness(pkg, digest, log, race=race)
    print("harness", pkg, "ok" if b else "FAILED")
if log:
    print("\n".join(log))
    sys.exit(1)
