#!/usr/bin/env python3
"""Copy the confirmed seeded changes of a later round (sub-agents' output directories <src>/<prop>/<letter>/) into
/verif/seeded/<prop>-<letter>/ (patch.diff, the demonstration, README.md, meta.json). Which checks catch a change is read
from the recheck.txt that bin/tryseed wrote next to it (committed /verif against a scratch worktree carrying the patch).
Development helper; no registered command uses it.   usage: mkseeded2.py <src> [note-file.json]"""
import json, os, re, shutil, sys
SRC = sys.argv[1]
NOTES = json.load(open(sys.argv[2])) if len(sys.argv) > 2 else {}
DST = os.path.join(os.path.dirname(os.path.dirname(os.path.abspath(__file__))), "seeded")
n = 0
for prop in sorted(os.listdir(SRC)):
    pd = os.path.join(SRC, prop)
    if not (os.path.isdir(pd) and re.fullmatch(r"C\d\d", prop)):
        continue
    for letter in sorted(os.listdir(pd)):
        src = os.path.join(pd, letter)
        if not (os.path.isdir(src) and os.path.exists(os.path.join(src, "patch.diff"))):
            continue
        key = "%s/%s" % (prop, letter)
        conf = {}
        try:
            conf = json.load(open(os.path.join(src, "confirm.json")))
        except Exception:
            pass
        if not (conf.get("applies") and conf.get("builds") and conf.get("suite_green_with_patch") and conf.get("demo_fails_with_patch") and conf.get("demo_passes_without")):
            print("not confirmed, skipped:", key, conf)
            continue
        oracle, corr, clauses = [], [], {}
        rp = os.path.join(src, "recheck.txt")
        if os.path.exists(rp):
            t = open(rp).read()
            for m in re.finditer(r"== (C\d\d): (.*?)(?=\n==|\Z)", t, re.S):
                pid, body = m.group(1), m.group(2)
                if "VIOLATION" in body:
                    cl = re.search(r"clause: (.*)", body)
                    clauses[pid] = (cl.group(1)[:300] if cl else "")
                    (corr if "no-failing-input-found" in body else oracle).append(pid)
        dst = os.path.join(DST, "%s-%s" % (prop, letter))
        os.makedirs(dst, exist_ok=True)
        for f in os.listdir(src):
            if f in ("patch.diff", "demo_where.txt", "README.md"):
                shutil.copy(os.path.join(src, f), os.path.join(dst, f))
            elif f.endswith("_test.go"):
                shutil.copy(os.path.join(src, f), os.path.join(dst, f + ".txt"))
        note = NOTES.get(key, {})
        out = {
            "property": prop,
            "summary": "see README.md (written by the sub-agent: which clause breaks, what it needs to manifest, what it ran)",
            "written_by": "fresh sub-agent given only the property text and a scratch worktree of /repo",
            "confirmed_independently": conf,
            "confirmed_how": "bin/confirmseed <dir>: scratch worktree of /repo HEAD; git apply; go build ./...; go test -vet=off -count=1 ./... (green); demonstration copied into the package named in demo_where.txt fails with the patch and passes without",
            "ran_against_checks": "bin/tryseed <dir> <ids>: committed /verif + scratch worktree carrying the patch (VERIF_REPO), quick tier, seed 1",
            "caught_by_oracle": oracle + [p for p in note.get("also_oracle", []) if p not in oracle],
            "caught_by_correspondence_or_obligation_only": corr,
            "clauses": clauses,
            "note": note.get("note", ""),
            "demonstration": "demo_test.go.txt (stored with a .txt suffix so that no Go tool picks it up here); copy it as demo_test.go into the directory named in demo_where.txt",
        }
        json.dump(out, open(os.path.join(dst, "meta.json"), "w"), indent=1)
        n += 1
print("written:", n)
