"""Per-property registry: theorems (proof obligations), correspondence streams, evidence texts."""

TB_COMMON = [
    "Lean 4.33.0 kernel; axioms limited to propext, Classical.choice, Quot.sound (audited with #print axioms on every run)",
    "correspondence harness (Go, injected with go test -overlay), generators and canonicalisation; Lean driver's JSON reader (Lean.Data.Json)",
    "fact extractor tools/extract (go/ast) regenerating lean/Mc/Generated.lean from the working tree",
]

PROPS = {
    "C05": {
        "theorems": [
            ("Mc.Props.C05", "Mc.C05.C05_idempotent"),
            ("Mc.Props.C05", "Mc.C05.C05_idempotent_inputs"),
            ("Mc.Props.C05", "Mc.C05.C05_result_hyp"),
            ("Mc.Props.C05", "Mc.C05.C05_self_merge"),
            ("Mc.Props.C05", "Mc.C05.C05_idempotent_null_counterexample"),
            ("Mc.Props.C05", "Mc.C05.C05_idempotent_keyswitch_counterexample"),
            ("Mc.Props.C05", "Mc.C05.C05_idempotent_scalarKeys_needed"),
            ("Mc.Props.C05", "Mc.C05.C05_clash_error"),
            ("Mc.Props.C05", "Mc.C05.C05_ok_no_clash"),
            ("Mc.Props.C05", "Mc.C05.C05_contains"),
            ("Mc.Props.C05", "Mc.C05.C05_laws"),
            ("Mc.Props.C05", "Mc.C05.C05_removed_top"),
            ("Mc.Props.C05", "Mc.C05.C05_preserved_top"),
            ("Mc.Props.C05", "Mc.C05.C05_merge_wf"),
            ("Mc.Props.C05", "Mc.C05.C05_eqv_refl"),
            ("Mc.Props.C05", "Mc.C05.merge_scalar_dest"),
            ("Mc.Props.C05", "Mc.C05.C05_clash_error_top"),
        ],
        "streams": [
            {"pkg": "pkg/dynamic/apply", "test": "TestVerifMerge", "n_quick": 40000, "n_thorough": 400000, "thorough_seeds": 3},
            {"pkg": "pkg/controller/common", "test": "TestVerifApply", "n_quick": 20000, "n_thorough": 200000, "thorough_seeds": 3},
        ],
        "nontrivial": ["changed", "error", "listmap"],
        "rule": "triples (observed,lastApplied,desired) generated as related mutations of one random tree (depth<=3, conventional merge keys, nulls, kind changes); "
                "non-trivial = the merge changed the observed object, or reported a clash, or went through the list-map branch; distinct = distinct (o,l,d) text",
        "trusted_base": TB_COMMON + [
            "modelled not verified: encoding/json round trip of the last-applied annotation, fmt %v of scalar merge-key values, runtime.DeepCopyJSON, reflect.DeepEqual on JSON trees",
        ],
        "assumptions": [
            "JSON numbers are integers (floats travel as opaque text and are not generated)",
            "merge-key values are scalars; list-maps have unique key values under every shared conventional key (the property's own hypothesis); other triples are compared model-vs-code but not judged",
        ],
    },
}
