"""Per-property registry: theorems (proof obligations), correspondence streams, evidence texts."""

TB_COMMON = [
    "Lean 4.33.0 kernel; axioms limited to propext, Classical.choice, Quot.sound (audited with #print axioms on every run)",
    "correspondence harness (Go, injected with go test -overlay), generators and canonicalisation; Lean driver's JSON reader (Lean.Data.Json)",
    "fact extractor tools/extract (go/ast) regenerating lean/Mc/Generated.lean from the working tree",
]

SYNC_STREAMS = [
    {"pkg": "pkg/controller/composite", "test": "TestVerifSync", "env": {"VERIF_ROLLING": "1"}, "shards": 8,
     "n_quick": 1600, "n_thorough": 16000, "thorough_seeds": 3},
    {"pkg": "pkg/controller/decorator", "test": "TestVerifSync", "shards": 8,
     "n_quick": 1200, "n_thorough": 12000, "thorough_seeds": 3},
]
TB_SYNC = TB_COMMON + [
    "simulated API server harness/verifsim/sim.go (optimistic concurrency, UID preconditions, finalizer-aware delete, status subresource, "
    "one-controller validation, simplified server-side apply) and in-process webhook; the real dynamic client, the real generated "
    "ControllerRevision clientset and the real webhook executor run against them",
    "modelled not verified: client-go (dynamic client, RetryOnConflict), apimachinery unstructured accessors and label selectors, encoding/json",
]
RULE_SYNC = ("real single syncs (processNextWorkItem) of generated scenarios: controller spec (parent scope, 1-2 child kinds, every update method, "
             "generateSelector, parent label selector, finalize/customize hooks, apply strategy) x cluster contents built from roles (owned up to date, "
             "owned stale, matching orphan, look-alike of another parent, owned but unmatched, pending deletion, foreign field drift, undesired, stray, "
             "other namespace) x ongoing rollouts (old/latest/duplicate claims); each trace is replayed against the Lean model request by request and "
             "judged by the property's oracle; distinct = distinct (cfg, cache, calls) text; ")


def rounds(mode, nq, nt, nontrivial):
    """multi-sync scenarios of the composite controller (TestVerifRounds): every sync is a "sync" line, each scenario ends with a "rounds" summary"""
    return {"pkg": "pkg/controller/composite", "test": "TestVerifRounds", "env": {"VERIF_MODE": mode}, "shards": 12,
            "n_quick": nq, "n_thorough": nt, "thorough_seeds": 2, "nontrivial": nontrivial}


RULE_ROUNDS = ("; scenario streams: whole histories of the real controller (fresh caches before every sync, a fair environment that makes written children "
               "healthy between syncs): convergence from generated cluster contents (9 syncs), rollouts of 1-4 children with a second spec change midway, "
               "the same with a crash after k requests of one sync (process state dropped), one injected API fault against a fault-free twin run; "
               "each scenario ends with a summary line judged by the cross-round oracle")


def events(pkg, nq, nt, nontrivial):
    """watch events delivered to the real handlers with workers off (TestVerifEvents)"""
    return {"pkg": "pkg/controller/" + pkg, "test": "TestVerifEvents", "shards": 8, "n_quick": nq, "n_thorough": nt, "thorough_seeds": 2, "nontrivial": nontrivial}


RULE_EVENTS = ("; event stream: generated scenarios (as for syncs, plus parents the controller's selector does not select, with and without its finalizer), "
               "6 delivered events each: parent add/update/delete, child add/update/delete, related add/update/delete; deletes also as tombstones, updates also as "
               "resync replays (same resourceVersion); event objects are stored objects or variants (controller reference to p1 / p2, wrong UID, wrong kind, other API "
               "group or version, orphan matching / not matching, non-controller reference, other namespace, being deleted; parent updates touching status only, "
               "generation, labels, annotations, deletion, selector labels); the work queue is read after the real handler ran")

RULE_INTERLEAVE = ("; interleave stream: single syncs working from a cache filled before 1-2 outside writes (child deleted, deleted and recreated under the "
                   "same name, handed to another controller, relabelled, given an extra owner reference or label; parent starts being deleted or is replaced) "
                   "that happen either before the sync (stale cache) or just before its k-th request")


def sync_prop(theorems, nontrivial, rule, areas, assumptions=None, extra_streams=None):
    return {"theorems": theorems, "streams": SYNC_STREAMS + (extra_streams or []), "nontrivial": nontrivial,
            "rule": RULE_SYNC + rule, "areas": areas, "trusted_base": TB_SYNC,
            "assumptions": assumptions or ["informer caches hold objects the API server once held (arbitrarily stale, never invented)"]}


C04T = [("Mc.Props.C04", "Mc.C04." + t) for t in ["C04_foreign_left_alone", "C04_ours_matching_kept", "C04_ours_unmatched", "C04_orphan",
        "C04_deleting_parent_inert", "C04_adopt_only_orphans", "C04_release_minimal", "C04_adopt_minimal"]]
C06T = [("Mc.Props.C06", "Mc.C06." + t) for t in ["C06_equal_no_write", "C06_pending_no_write", "C06_merge_error", "C06_ondelete", "C06_recreate",
        "C06_inplace", "C06_unknown_method", "C06_default_method", "C06_delete_options"]]
C10T = [("Mc.Props.C10", "Mc.C10." + t) for t in ["C10_never_add_when_deleting", "C10_sync_noop", "C10_add_edit", "C10_remove_edit",
        "C10_should_finalize_iff", "C10_hook_choice_composite", "C10_hook_choice_decorator"]]

C19T = [("Mc.Props.C19", "Mc.C19." + t) for t in ["C19_success_status", "C19_304_body", "C19_304_body_all_schedules", "C19_429", "C19_retry_table",
        "C19_other_status_error", "C19_304_needs_inm", "C19_strict_table", "C19_plain_cache_untouched", "run_inv"]]

# regenerated inventory of the API error kinds the sync paths classify (no tolerance in manageRevisions / the finalizer manager)
INVT = [("Mc.Props.C12Inventory", "Mc.C12.C12_tolerated_inventory")]

C03T = [("Mc.Props.C03", "Mc.C03.C03_key_format_core"), ("Mc.Props.C03", "Mc.C03.C03_key_format_group"), ("Mc.Props.C03", "Mc.C03.C03_key_injective"), ("Mc.Props.C03", "Mc.C03.C03_inner_key_qualified"), ("Mc.Props.C03", "Mc.C03.C03_inner_key_plain"), ("Mc.Props.C03", "Mc.C03.C03_inner_key_iff"), ("Mc.Props.C03", "Mc.C03.C03_groups_total"), ("Mc.Props.C03", "Mc.C03.C03_groups_total_json"), ("Mc.Props.C03", "Mc.C03.C03_attachment_groups_total"), ("Mc.Props.C03", "Mc.C03.C03_claim_step"), ("Mc.Props.C03", "Mc.C03.C03_claim_groups_total"), ("Mc.Props.C03", "Mc.C03.C03_convert_namespace"), ("Mc.Props.C03", "Mc.C03.C03_convert_sound"), ("Mc.Props.C03", "Mc.C03.C03_convert_complete"), ("Mc.Props.C03", "Mc.C03.C03_convert_cluster"), ("Mc.Props.C03", "Mc.C03.C03_namespace_default")]
C07T = [("Mc.Props.C07", "Mc.C07.C07_gate"), ("Mc.Props.C07", "Mc.C07.C07_child_happy"), ("Mc.Props.C07", "Mc.C07.C07_wait"), ("Mc.Props.C07", "Mc.C07.C07_complete"), ("Mc.Props.C07", "Mc.C07.C07_complete_forall"), ("Mc.Props.C07", "Mc.C07.C07_progress"), ("Mc.Props.C07", "Mc.C07.C07_hook_order"), ("Mc.Props.C07", "Mc.C07.C07_hook_order_first"), ("Mc.Props.C07", "Mc.C07.C07_one_move"), ("Mc.Props.C07", "Mc.C07.C07_one_move_latest"), ("Mc.Props.C07", "Mc.C07.C07_one_name"), ("Mc.Props.C07", "Mc.C07.C07_condition"), ("Mc.Props.C07", "Mc.C07.C07_condition_exact"), ("Mc.Props.C07", "Mc.C07.C07_condition_error"), ("Mc.Props.C07", "Mc.C07.C07_claims_filtered"), ("Mc.Props.C07", "Mc.C07.C07_claims_general"), ("Mc.Props.C07", "Mc.C07.C07_claims_complete"), ("Mc.Props.C07", "Mc.C07.C07_claims_wins")]
C09T = [("Mc.Props.C09", "Mc.C09.C09_tail_no_revision_write"), ("Mc.Props.C09", "Mc.C09.C09_head_no_child_mutation_claim"), ("Mc.Props.C09", "Mc.C09.C09_head_no_child_mutation_related"), ("Mc.Props.C09", "Mc.C09.C09_head_no_child_mutation_revisions"), ("Mc.Props.C09", "Mc.C09.C09_head_no_child_mutation"), ("Mc.Props.C09", "Mc.C09.C09_order"), ("Mc.Props.C09", "Mc.C09.C09_order_full"), ("Mc.Props.C09", "Mc.C09.C09_manageRevisions_failed_write_stops"), ("Mc.Props.C09", "Mc.C09.C09_failed_revision_write_stops_partial"), ("Mc.Props.C09", "Mc.C09.C09_failed_revision_write_stops_children"), ("Mc.Props.C09", "Mc.C09.C09_failed_revision_write_stops")]
C11T = [("Mc.Props.C11", "Mc.C11.C11_footprint"), ("Mc.Props.C11", "Mc.C11.C11_body"), ("Mc.Props.C11", "Mc.C11.C11_uid_guard"), ("Mc.Props.C11", "Mc.C11.C11_skip_equal"), ("Mc.Props.C11", "Mc.C11.C11_retry_bound"), ("Mc.Props.C11", "Mc.C11.C11_after_child_errors"), ("Mc.Props.C11", "Mc.C11.C11_status_follows_children"), ("Mc.Props.C11", "Mc.C11.C11_write_when_different")]
C15T = [("Mc.Props.C15", "Mc.C15.C15_selection_type_invalid"), ("Mc.Props.C15", "Mc.C15.C15_selection_type_byNames"), ("Mc.Props.C15", "Mc.C15.C15_selection_type_byLabels"), ("Mc.Props.C15", "Mc.C15.C15_byLabels_triggers"), ("Mc.Props.C15", "Mc.C15.C15_byNames_triggers"), ("Mc.Props.C15", "Mc.C15.C15_selected_triggers"), ("Mc.Props.C15", "Mc.C15.C15_once_per_generation_cached"), ("Mc.Props.C15", "Mc.C15.C15_once_per_generation_stored"), ("Mc.Props.C15", "Mc.C15.C15_requests"), ("Mc.Props.C15", "Mc.C15.C15_listed_triggers"), ("Mc.Props.C15", "Mc.C15.C15_invalid_is_error"), ("Mc.Props.C15", "Mc.C15.C15_foreign_namespace_error"), ("Mc.Props.C15", "Mc.C15.C15_unknown_resource_error"), ("Mc.Props.C15", "Mc.C15.C15_bad_rule_fails")]
C16T = [("Mc.Props.C16", "Mc.C16.C16_string_map_pointwise"), ("Mc.Props.C16", "Mc.C16.C16_string_map_uniq"), ("Mc.Props.C16", "Mc.C16.C16_changed_flag"), ("Mc.Props.C16", "Mc.C16.C16_flag_false_of_satisfied"), ("Mc.Props.C16", "Mc.C16.C16_selector_conjunction"), ("Mc.Props.C16", "Mc.C16.C16_rule_for"), ("Mc.Props.C16", "Mc.C16.C16_undeclared_never_matches"), ("Mc.Props.C16", "Mc.C16.C16_attachment_filter_sound"), ("Mc.Props.C16", "Mc.C16.C16_attachment_filter_complete"), ("Mc.Props.C16", "Mc.C16.C16_attachment_filter"), ("Mc.Props.C16", "Mc.C16.C16_no_change_no_request"), ("Mc.Props.C16", "Mc.C16.C16_bad_status_no_request"),
        ("Mc.Props.C16Foot", "Mc.C16.C16_parent_bodies")]
C10ST = [("Mc.Props.C10Sync", "Mc.C10.C10_add_first_partial"), ("Mc.Props.C10Sync", "Mc.C10.C10_add_skipped_when_present"), ("Mc.Props.C10Sync", "Mc.C10.C10_failed_finalizer_phase"), ("Mc.Props.C10Sync", "Mc.C10.C10_failed_add_stops"), ("Mc.Props.C10Sync", "Mc.C10.C10_add_phase_starts_with_get"), ("Mc.Props.C10Sync", "Mc.C10.C10_dying_parent_inert_claims"), ("Mc.Props.C10Sync", "Mc.C10.C10_dying_parent_only_parent"), ("Mc.Props.C10Sync", "Mc.C10.C10_dying_parent_guard"), ("Mc.Props.C10Sync", "Mc.C10.C10_dying_parent_only_parent_decorator"), ("Mc.Props.C10Sync", "Mc.C10.C10_dying_parent_guard_decorator")]

C02T = [("Mc.Props.C02", "Mc.C02.C02_manage_requests_strong"), ("Mc.Props.C02", "Mc.C02.C02_manage_requests"), ("Mc.Props.C02", "Mc.C02.C02_manage_requests_ssa"), ("Mc.Props.C02", "Mc.C02.C02_delete_guard"), ("Mc.Props.C02", "Mc.C02.C02_revision_requests"), ("Mc.Props.C02", "Mc.C02.C02_revision_delete_guard"), ("Mc.Props.C02", "Mc.C02.C02_create_owner"), ("Mc.Props.C02", "Mc.C02.C02_create_controller"), ("Mc.Props.C02", "Mc.C02.C02_create_owner_needs_meta"), ("Mc.Props.C02", "Mc.C02.C02_apply_owner"), ("Mc.Props.C02", "Mc.C02.C02_apply_controller"), ("Mc.Props.C02", "Mc.C02.C02_apply_controller_partial_counterexample"), ("Mc.Props.C02", "Mc.C02.sys_has_uid"), ("Mc.Props.C02", "Mc.C02.sys_has_resourceVersion"), ("Mc.Props.C02", "Mc.C02.C02_update_keeps_identity"), ("Mc.Props.C02", "Mc.C02.C02_update_keeps_identity_generated"), ("Mc.Props.C02", "Mc.C02.applyUpdate_status_kept"), ("Mc.Props.C02", "Mc.C02.C02_claim_requests"), ("Mc.Props.C02", "Mc.C02.C02_claim_requests_targets"), ("Mc.Props.C02", "Mc.C02.C02_claim_no_foreign_write")]
C12T = [("Mc.Props.C12", "Mc.C12.C12_child_independent"), ("Mc.Props.C12", "Mc.C12.C12_delete_independent"), ("Mc.Props.C12", "Mc.C12.C12_manage_collects"), ("Mc.Props.C12", "Mc.C12.C12_swallowed_only_benign"), ("Mc.Props.C12", "Mc.C12.C12_delete_swallows_notfound"), ("Mc.Props.C12", "Mc.C12.C12_updateGroup_errors"), ("Mc.Props.C12", "Mc.C12.C12_deleteGroup_errors"), ("Mc.Props.C12", "Mc.C12.C12_manage_errors"), ("Mc.Props.C12", "Mc.C12.C12_error_means_requeue"), ("Mc.Props.C12", "Mc.C12.C12_error_keeps_after"), ("Mc.Props.C12", "Mc.C12.C12_tooMany_requeue_after"), ("Mc.Props.C12", "Mc.C12.C12_ok_outcome"), ("Mc.Props.C12", "Mc.C12.C12_panic_iff"), ("Mc.Props.C12", "Mc.C12.C12_composite_429"), ("Mc.Props.C12", "Mc.C12.C12_decorator_429")]
C13T = [("Mc.Props.C13", "Mc.C13.C13_total"), ("Mc.Props.C13", "Mc.C13.C13_total_decorator"), ("Mc.Props.C13", "Mc.C13.C12_decorator_never_tooMany"), ("Mc.Props.C13", "Mc.C13.C13_reject_fails"), ("Mc.Props.C13", "Mc.C13.C13_reject_stops"), ("Mc.Props.C13", "Mc.C13.C13_reject_no_write"), ("Mc.Props.C13", "Mc.C13.C13_reject_fails_sync"), ("Mc.Props.C13", "Mc.C13.C13_reject_outcome"), ("Mc.Props.C13", "Mc.C13.C13_reject_no_write_decorator")]
C06LT = [("Mc.Props.C06Lift", "Mc.C06.C06_distinct_targets"), ("Mc.Props.C06Lift", "Mc.C06.C06_distinct_targets_cluster"), ("Mc.Props.C06Lift", "Mc.C06.C06_lift"), ("Mc.Props.C06Lift", "Mc.C06.C06_lift_create"), ("Mc.Props.C06Lift", "Mc.C06.C06_lift_ondelete"), ("Mc.Props.C06Lift", "Mc.C06.C06_lift_exact"), ("Mc.Props.C06", "Mc.C06.C06_delete_inv"), ("Mc.Props.C06", "Mc.C06.C06_update_inv")]

C08T = [("Mc.Props.C07", "Mc.C07." + t) for t in ["C07_gate", "C07_child_happy", "C07_wait", "C07_progress", "C07_complete", "C07_complete_forall", "C07_claims_filtered"]] + \
       [("Mc.Props.C08", "Mc.C08." + t) for t in ["C08_never_back", "C08_progress", "C08_pending_shrinks", "C08_pending_drops", "C08_completes",
                                                  "C08_rollout_completes", "C08_stays_complete", "syncRollingUpdate_eq_round", "flatOf_desired", "phase1_inv", "phase2_inv", "revChildren_setRevChildren"]]

C01T = [("Mc.Props.C01", "Mc.C01." + t) for t in ["silent_ret", "C01_updateGroup_quiet", "C01_deleteGroup_quiet", "C01_manage_quiet", "C01_equal_is_fix", "C01_ssa_quiet"]] + \
       [("Mc.Props.C01Closed", "Mc.C01." + t) for t in ["delete_live", "create_free", "deleteGroup_run", "createGroup_run"]] + \
       [("Mc.Props.C01Converge", "Mc.C01." + t) for t in ["C01_create_converges", "C01_created_child_is_settled", "created_stamped", "Ext_refl"]] + \
       [("Mc.Props.C01Converge", "Mc.applyUpdate_stamped"), ("Mc.Props.C01Converge", "Mc.merge_ext_fix")] + \
       [("Mc.Props.C01Manage", "Mc.C01." + t) for t in ["C01_manage_create_converges", "manage_create_loop", "C01_recreate_child_converges"]] + \
       [("Mc.Props.C01Update", "Mc.C01." + t) for t in ["C01_updated_child_is_settled", "applyUpdate_result_fix", "update_post_outside"]] + \
       [("Mc.Proofs.WfPres", "Mc.C01." + t) for t in ["C01_updated_child_is_settled'", "applyUpdate_wfB", "update_post_wfB"]] + \
       [("Mc.Props.C01Update", "Mc.fix_of_editOutside"), ("Mc.Props.C01Update", "Mc.fix_obj_iff"), ("Mc.Props.C01Update", "Mc.applyUpdate_of_fix")] + \
       [("Mc.Props.C06", "Mc.C06.C06_equal_no_write"), ("Mc.Props.C05", "Mc.C05.C05_idempotent"), ("Mc.Props.C05", "Mc.C05.C05_self_merge"), ("Mc.Props.C05", "Mc.C05.C05_contains")]

# closed-world theorems: the Lean API-server model (Mc/Api.lean, cross-checked against the simulator on every recorded request) with arbitrary other clients
C02CT = [("Mc.Props.C02Closed", "Mc.C02." + t) for t in ["C02_manage_accepted_update", "C02_manage_accepted_delete", "C02_manage_accepted_create"]] + \
        [("Mc.Props.C02Sem", "Mc.C02." + t) for t in ["C02_update_lands_on_observed", "C02_status_update_lands_on_observed", "C02_delete_hits_observed_uid",
                                                      "C02_recreated_never_deleted", "C02_created_born_with_references", "exec_log"]] + \
        [("Mc.Props.C02Sem", "Mc.Api." + t) for t in ["inv_reachable", "inv_exec", "rv_identifies", "uid_identifies"]]
ATOMT = [("Mc.Props.AtomicSem", "Mc.Atomic.atomicLoop_accepted")]
TB_API = ["closed-loop correspondence: the Lean sync model run against the Lean API model from the recorded start store, with the recorded webhook answers, must leave the "
          "store the real sync left in the simulator (up to UIDs, resourceVersions, timestamps and map-iteration order); compared on every sync without injected faults, outside writers or server-side apply",
          "Lean model of the API server (Mc/Api.lean: optimistic concurrency by resourceVersion, UID preconditions, finalizer-aware delete, status subresource, one-controller "
          "validation, generation bump, simplified server-side apply), checked against the Go simulator on every request the simulator answered (pre-state, body, options -> "
          "code, post-state, response; resourceVersions and UIDs of writes must be new); other API clients are arbitrary request sequences through the same model"]

PROPS = {
    "C19": {
        "theorems": C19T,
        "streams": [{"pkg": "pkg/hooks", "test": "TestVerifHookCalls", "shards": 8, "n_quick": 4000, "n_thorough": 60000, "thorough_seeds": 2},
                    {"pkg": "pkg/hooks", "test": "TestVerifHookExec", "shards": 8, "n_quick": 32, "n_thorough": 240, "thorough_seeds": 1}],
        "nontrivial": ["served-from-cache", "429", "concurrent", "timed-out"],
        "rule": "real webhookExecutor.Call with a scripted HTTP client: 1-3 concurrent calls on the same cache key under a random interleaving of "
                "enrich / round-trip / adjust steps x status codes x ETag and Retry-After headers x body classes (valid, unknown fields, duplicate fields, "
                "invalid JSON) x strict/loose x cache empty / hit / expired; non-trivial = concurrent calls, a body served from the cache, or a 429; "
                "distinct = distinct (mode, cache, schedule, answers) text; second stream: executors built by the real NewWebhookExecutor (real HTTP client and "
                "metrics wrapper) for a controller re-created under the same name with other timeouts, against an in-process hook answering after 0 / 600 ms",
        "trusted_base": TB_COMMON + ["modelled not verified: net/http, sigs.k8s.io/json strict decoding (classified by the harness's four body classes), zcache (present/expired)"],
        "assumptions": ["Retry-After dates are compared on whole seconds; byte-level decoding is library code compared through four representative bodies"],
    },
    "C01": sync_prop(C01T, ["rounds-converge", "judged-converge"],
                     "non-trivial = a convergence scenario judged by the cross-round oracle (no foreign object on a desired name)" + RULE_ROUNDS, ["children", "claim", "status", "outcome", "apimodel", "closedloop"],
                     extra_streams=[rounds("converge", 240, 2400, ["judged-converge"])]),
    "C02": sync_prop(C02T + C02CT + C04T[:1] + C04T[3:6] + C06T[-1:], ["create-child", "update-child", "delete-child", "apply-child", "create-revision", "update-revision", "delete-revision"],
                     "non-trivial = some child or ControllerRevision write was accepted" + RULE_INTERLEAVE, ["claim", "children", "revisions", "apimodel", "closedloop"],
                     extra_streams=[rounds("interleave", 600, 6000, ["create-child", "update-child", "delete-child", "failed-update", "failed-delete"])]),
    "C04": sync_prop(C04T + ATOMT + [("Mc.Props.AtomicSem", "Mc.Atomic.C04_release_on_live"), ("Mc.Props.AtomicSem", "Mc.Atomic.C04_adopt_on_live")],
                     ["update-child", "update-revision", "failed-update"],
                     "non-trivial = an ownership edit or another child update was attempted" + RULE_INTERLEAVE, ["claim", "apimodel"],
                     extra_streams=[rounds("interleave", 600, 6000, ["update-child", "update-revision", "failed-update"])]),
    "C06": sync_prop(C06T + C06LT + [("Mc.Props.C06Switch", "Mc.C06.C06_switch_extracted"), ("Mc.Props.C06Switch", "Mc.C06.C06_modelSwitch_sound")], ["update-child", "delete-child", "create-child"],
                     "non-trivial = some child write was accepted", ["children"]),
    "C03": sync_prop(C03T, ["hook-sync", "hook-finalize"],
                     "non-trivial = a sync or finalize hook was called (its children map is compared with the owned set computed from the cache snapshot)" + RULE_INTERLEAVE, ["hook", "claim"],
                     extra_streams=[rounds("interleave", 600, 6000, ["hook-sync", "hook-finalize"])]),
    "C09": sync_prop(C09T + INVT, ["create-revision", "update-revision", "delete-revision"],
                     "non-trivial = a ControllerRevision was written in the sync" + RULE_ROUNDS, ["revisions", "children"],
                     extra_streams=[rounds("crash", 60, 360, ["rounds-crash", "create-revision", "update-revision", "delete-revision"])]),
    "C07": sync_prop(C07T, ["update-revision", "create-revision", "delete-revision"],
                     "non-trivial = a ControllerRevision was written (claims moved, revision created or pruned)" + RULE_ROUNDS, ["revisions", "children", "status", "hook"],
                     extra_streams=[rounds("rollout", 96, 480, ["update-revision", "create-revision", "delete-revision"])]),
    "C08": sync_prop(C08T, ["rounds-rollout", "update-revision"],
                     "non-trivial = a whole rollout scenario (summary line), or a sync that wrote a ControllerRevision" + RULE_ROUNDS, ["revisions", "children", "status"],
                     extra_streams=[rounds("rollout", 96, 480, ["rounds-rollout", "update-revision"])]),
    "C11": sync_prop(C11T + [("Mc.Props.C02Sem", "Mc.C02.C02_status_update_lands_on_observed")] + ATOMT + [("Mc.Props.AtomicSem", "Mc.Atomic.C11_status_on_live")], ["updateStatus-parent", "failed-updateStatus"],
                     "non-trivial = a parent status write was attempted" + RULE_INTERLEAVE, ["status", "outcome", "apimodel"],
                     extra_streams=[rounds("interleave", 600, 6000, ["updateStatus-parent", "failed-updateStatus"])]),
    "C14": {
        "theorems": [("Mc.Props.C14", "Mc.C14." + t) for t in ["C14_parent", "C14_child", "C14_related", "C14_replay_silent", "C14_only_admitted",
                     "C14_controlled_child_one_parent", "C14_parent_decorator", "C14_child_decorator", "C14_decorator_ignores_orphans"]],
        "streams": [events("composite", 900, 9000, ["enqueued"]), events("decorator", 500, 5000, ["enqueued"])],
        "nontrivial": ["enqueued"],
        "rule": "watch events delivered to the real handlers of both controller kinds with workers off" + RULE_EVENTS + "; non-trivial = the event queued at least one parent; "
                "distinct = distinct (cfg, cached parents, event) text",
        "trusted_base": TB_SYNC,
        "assumptions": ["an informer cache holds one object per (apiVersion, kind, namespace, name)",
                        "the customize answers a related-object handler works from are read back from the manager's cache after the event"],
    },
    "C18": {
        "theorems": [("Mc.Props.C18", "Mc.C18." + t) for t in ["inv_init", "inv_step", "C18_invariant", "C18_refcount", "C18_fresh_start", "C18_share", "C18_close_not_last",
                     "C18_close_last", "C18_replay_on_add", "C18_event_delivery", "C18_silent_after_remove", "C18_isolation"]],
        "streams": [{"pkg": "pkg/dynamic/informer", "test": "TestVerifInformer", "shards": 16, "n_quick": 160, "n_thorough": 1600, "thorough_seeds": 2, "nontrivial": ["delivered"]},
                    {"pkg": "pkg/dynamic/informer", "test": "TestVerifInformerResync", "shards": 8, "n_quick": 16, "n_thorough": 160, "thorough_seeds": 2, "nontrivial": ["removed-mid-round"]}],
        "nontrivial": ["delivered"],
        "rule": "operation sequences (6-17 operations: subscribe, close, add handler with or without its own resync period, add handler while another goroutine makes an outside write "
                "(the new handler's replay is held open so that the write lands inside AddEventHandler), remove handlers, outside create/update/delete of an object) "
                "over two resources executed on the real SharedInformerFactory against the simulated API server (real LIST/WATCH); after each operation the deliveries per handler, "
                "the LIST requests and watch cancellations seen by the server and the factory's reference counts are recorded, compared with the model step by step and judged by "
                "the history specification; non-trivial = some handler received a delivery; distinct = distinct (initial contents, operations) text; "
                "resync stream (observation, no model): a handler with a private resync period of 20-50 ms over 15-35 cached objects is removed (RemoveEventHandlers or Close) in the "
                "middle of one of its rounds; after the call returned its delivery count must not grow, and the other subscriber must have received the whole cache",
        "trusted_base": TB_COMMON + ["simulated API server LIST/WATCH (harness/verifsim/sim.go); client-go SharedIndexInformer and reflector (modelled: cache = server contents once synced)",
                                     "waiting is expectation-guided (until every registered handler got the event, 5 s ceiling) plus a 25 ms settle window for stray deliveries"],
        "assumptions": ["every subscription is closed at most once and handlers are added through open subscriptions",
                        "per-handler resync timers never fire within a scenario of the modelled stream (periods of minutes); the private resync goroutine is exercised by the resync stream only"],
    },
    "C20": {
        "theorems": [("Mc.Props.C20", "Mc.C20." + t) for t in ["inv_init", "C20_failed_construction_net_zero", "inv_reconcile", "C20_no_leak", "C20_all_stopped_no_subs",
                     "C20_noop_update", "C20_delete_stops", "C20_follows_spec", "C20_others_untouched", "C20_restart_stops_old"]],
        "streams": [{"pkg": "pkg/controller/composite", "test": "TestVerifMeta", "shards": 16, "n_quick": 48, "n_thorough": 480, "thorough_seeds": 2, "nontrivial": ["stopped"]},
                    {"pkg": "pkg/controller/decorator", "test": "TestVerifMeta", "shards": 16, "n_quick": 48, "n_thorough": 480, "thorough_seeds": 2, "nontrivial": ["stopped"]}],
        "nontrivial": ["stopped"],
        "rule": "histories of 3-7 events (create, spec-changing update, update that leaves the spec alone, delete) over two controller names, specs drawn from constructible classes "
                "(different child sets, ETag block with each optional field set or unset, finalize hook) and classes that cannot start (unknown parent resource, parent CRD without status "
                "subresource, unknown child resource, no hooks, unusable webhook, invalid selector); the real Reconcile of both meta-controllers runs over the controller-runtime fake "
                "client, the real informer factory and real hosted controllers against the simulated API server; after every event: running instances and their spec version, hook URLs "
                "called after a parent was poked, the factory's subscription counts; non-trivial = some instance was stopped in the history; distinct = distinct event list",
        "trusted_base": TB_COMMON + ["controller-runtime fake client, simulated API server with LIST/WATCH, in-process webhook server; client-go informers and work queues run for real",
                                     "waiting is expectation-guided (every running instance must call its hook after the poke, 5 s ceiling) plus a 60 ms settle window for calls from stopped instances"],
        "assumptions": ["goroutine termination inside Stop() is observed (no hook call on a stopped instance's URL after Reconcile returned), not modelled",
                        "one reconcile at a time per meta-controller (controller-runtime runs a single worker for each)"],
    },
    "C17": sync_prop([("Mc.Props.C17", "Mc.C17." + t) for t in ["excl_step", "excl_run", "C17_lockset", "C17_accesses_locked", "C17_table_covers"]],
                     ["update-child", "update-revision", "update-parent", "create-child", "race-run"],
                     "non-trivial = the sync wrote something (every cached object is fingerprinted before and after each sync), or a race-detector run of concurrent workers; "
                     "race stream: 4 workers resolve the same related resources for distinct parents at once on a fresh customize manager, built with -race",
                     ["outcome"], assumptions=["the Go memory model is not modelled: race freedom is proved for an abstract reader/writer lock and tied to the code by the re-extracted table of "
                                               "accesses to the process-wide maps and the lock held at each (intra-procedural, source order)",
                                               "informer caches hold objects the API server once held"],
                     extra_streams=[{"pkg": "pkg/controller/common/customize", "test": "TestVerifRelatedRace", "race": True, "shards": 4, "n_quick": 8, "n_thorough": 80, "thorough_seeds": 1,
                                     "nontrivial": ["race-run"]}]),
    "C15": sync_prop(C15T, ["hook-customize", "related-selected"],
                     "non-trivial = the customize hook was called in the sync, or (event stream) the related object is selected by some parent's rules" + RULE_EVENTS,
                     ["hook", "outcome", "events"], extra_streams=[events("composite", 600, 6000, ["related-selected", "related-add", "related-update", "related-delete"]),
                                                                   rounds("malformed", 800, 8000, ["hook-customize"])]),
    # + closed world: an accepted write with the resourceVersion of an object the sync was given lands on exactly that object
    # (the decorator writes its target optimistically): what somebody else changed meanwhile is never overwritten
    "C16": sync_prop(C16T + [("Mc.Props.C02Sem", "Mc.C02.C02_update_lands_on_observed"), ("Mc.Props.C02Sem", "Mc.C02.C02_status_update_lands_on_observed")],
                     ["update-parent", "updateStatus-parent"],
                     "non-trivial = the decorated object was written (decorator traces); composite traces are not judged", ["parent", "status", "hook", "apimodel"]),
    "C12": sync_prop(C12T + INVT, ["failed-create", "failed-update", "failed-delete", "failed-updateStatus", "outcome-error"],
                     "non-trivial = some request failed or the sync reported an error" + RULE_ROUNDS, ["outcome", "children", "status", "claim", "revisions", "finalizer", "parent"],
                     extra_streams=[rounds("faults", 96, 960, ["rounds-faults", "failed-create", "failed-update", "failed-delete", "failed-updateStatus", "outcome-error"]),
                                    rounds("malformed", 800, 8000, ["outcome-error", "hook-sync", "hook-finalize"]),
                                    # rollouts with a crash or an API fault aimed at a ControllerRevision write: a failed revision write is an error of the sync
                                    rounds("crash", 60, 360, ["failed-create", "failed-update", "failed-delete", "outcome-error"])]),
    "C13": sync_prop(C13T, ["outcome-error", "hook-sync", "hook-finalize"],
                     "non-trivial = a hook was called; malformed stream: the scripted hook answer with one value at a random path replaced by every JSON type, "
                     "truncated / non-object / null bodies and non-200 codes", ["outcome", "hook", "children"],
                     extra_streams=[rounds("malformed", 800, 8000, ["outcome-error", "hook-sync", "hook-finalize"])]),
    "C10": sync_prop(C10T + C10ST + ATOMT + INVT + [("Mc.Props.AtomicSem", "Mc.Atomic.C10_finalizer_edit_on_live")], ["update-parent", "hook-finalize", "create-child"],
                     "non-trivial = the parent was edited, the finalize hook called, or a child created" + RULE_ROUNDS + RULE_INTERLEAVE, ["finalizer", "parent", "hook", "children", "apimodel"],
                     extra_streams=[rounds("interleave", 600, 6000, ["update-parent", "hook-finalize", "create-child", "failed-update"]),
                                    rounds("faults", 96, 960, ["update-parent", "hook-finalize", "create-child", "failed-update"]),
                                    rounds("rollout", 96, 480, ["update-parent", "hook-finalize", "create-child"])]),

    "C05": {
        "theorems": [
            ("Mc.Props.C05", "Mc.C05.C05_idempotent"),
            ("Mc.Props.C05", "Mc.C05.C05_idempotent_inputs"),
            ("Mc.Props.C05", "Mc.C05.C05_result_hyp"),
            ("Mc.Props.C05", "Mc.C05.C05_self_merge"),
            ("Mc.Props.C05", "Mc.C05.C05_idempotent_null_counterexample"),
            ("Mc.Props.C05", "Mc.C05.C05_idempotent_keyswitch_counterexample"),
            ("Mc.Props.C05", "Mc.C05.C05_idempotent_scalarKeys_needed"),
            ("Mc.Props.C05", "Mc.C05.C05_clash_error"),
            ("Mc.Props.C05", "Mc.C05.C05_ok_no_clash"),
            ("Mc.Props.C05", "Mc.C05.C05_contains"),
            ("Mc.Props.C05", "Mc.C05.C05_laws"),
            ("Mc.Props.C05", "Mc.C05.C05_removed_top"),
            ("Mc.Props.C05", "Mc.C05.C05_preserved_top"),
            ("Mc.Props.C05", "Mc.C05.C05_merge_wf"),
            ("Mc.Props.C05", "Mc.C05.C05_eqv_refl"),
            ("Mc.Props.C05", "Mc.C05.merge_scalar_dest"),
            ("Mc.Props.C05", "Mc.C05.C05_clash_error_top"),
        ],
        "streams": [
            {"pkg": "pkg/dynamic/apply", "test": "TestVerifMerge", "n_quick": 40000, "n_thorough": 400000, "thorough_seeds": 3},
            {"pkg": "pkg/controller/common", "test": "TestVerifApply", "n_quick": 20000, "n_thorough": 200000, "thorough_seeds": 3},
        ],
        "nontrivial": ["changed", "error", "listmap"],
        "rule": "triples (observed,lastApplied,desired) generated as related mutations of one random tree (depth<=3, conventional merge keys, nulls, kind changes); "
                "non-trivial = the merge changed the observed object, or reported a clash, or went through the list-map branch; distinct = distinct (o,l,d) text",
        "trusted_base": TB_COMMON + [
            "modelled not verified: encoding/json round trip of the last-applied annotation, fmt %v of scalar merge-key values, runtime.DeepCopyJSON, reflect.DeepEqual on JSON trees",
        ],
        "assumptions": [
            "JSON numbers are integers (floats travel as opaque text and are not generated)",
            "merge-key values are scalars; list-maps have unique key values under every shared conventional key (the property's own hypothesis); other triples are compared model-vs-code but not judged",
        ],
    },
}

for _p in ("C01", "C02", "C04", "C10", "C11"):
    PROPS[_p]["trusted_base"] = PROPS[_p]["trusted_base"] + TB_API
