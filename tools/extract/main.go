// extract re-reads metacontroller's source (go/parser, stdlib only) and prints
// lean/Mc/Generated.lean: the constants the Lean model is parameterised by and the
// syntactic facts (call-site inventories, call orders, lock tables) that small
// `decide` theorems are stated over. usage: extract <repo> > Generated.lean
package main

import (
	"fmt"
	"go/ast"
	"go/parser"
	"go/token"
	"os"
	"path/filepath"
	"sort"
	"strconv"
	"strings"
)

var fset = token.NewFileSet()

func parse(repo, rel string) *ast.File {
	f, err := parser.ParseFile(fset, filepath.Join(repo, rel), nil, parser.ParseComments)
	if err != nil {
		fmt.Fprintf(os.Stderr, "extract: %v\n", err)
		os.Exit(2)
	}
	return f
}

// stringSliceVar returns the elements of `var name = []string{...}`.
func stringSliceVar(f *ast.File, name string) []string {
	var out []string
	ast.Inspect(f, func(n ast.Node) bool {
		vs, ok := n.(*ast.ValueSpec)
		if !ok {
			return true
		}
		for i, id := range vs.Names {
			if id.Name != name || i >= len(vs.Values) {
				continue
			}
			if cl, ok := vs.Values[i].(*ast.CompositeLit); ok {
				for _, e := range cl.Elts {
					if bl, ok := e.(*ast.BasicLit); ok && bl.Kind == token.STRING {
						s, _ := strconv.Unquote(bl.Value)
						out = append(out, s)
					}
				}
			}
		}
		return true
	})
	return out
}

// stringConst returns the value of `const name = "..."` (or var).
func stringConst(f *ast.File, name string) string {
	res := ""
	ast.Inspect(f, func(n ast.Node) bool {
		vs, ok := n.(*ast.ValueSpec)
		if !ok {
			return true
		}
		for i, id := range vs.Names {
			if id.Name == name && i < len(vs.Values) {
				if bl, ok := vs.Values[i].(*ast.BasicLit); ok && bl.Kind == token.STRING {
					res, _ = strconv.Unquote(bl.Value)
				}
			}
		}
		return true
	})
	return res
}

func leanStr(s string) string { return strconv.Quote(s) }
func leanList(xs []string) string {
	q := make([]string, len(xs))
	for i, x := range xs {
		q[i] = leanStr(x)
	}
	return "[" + strings.Join(q, ", ") + "]"
}

// funcDecl finds a function or method by name.
func funcDecl(f *ast.File, name string) *ast.FuncDecl {
	for _, d := range f.Decls {
		if fd, ok := d.(*ast.FuncDecl); ok && fd.Name.Name == name {
			return fd
		}
	}
	return nil
}

// callsInOrder lists, in source order, the selector/ident names of all calls inside fn
// that are in `want`.
func callsInOrder(fn *ast.FuncDecl, want map[string]bool) []string {
	type hit struct {
		pos  token.Pos
		name string
	}
	var hits []hit
	if fn == nil {
		return nil
	}
	ast.Inspect(fn.Body, func(n ast.Node) bool {
		ce, ok := n.(*ast.CallExpr)
		if !ok {
			return true
		}
		name := ""
		switch fun := ce.Fun.(type) {
		case *ast.SelectorExpr:
			name = fun.Sel.Name
		case *ast.Ident:
			name = fun.Name
		}
		if want[name] {
			hits = append(hits, hit{ce.Pos(), name})
		}
		return true
	})
	sort.Slice(hits, func(i, j int) bool { return hits[i].pos < hits[j].pos })
	out := make([]string, len(hits))
	for i, h := range hits {
		out[i] = h.name
	}
	return out
}

// firstStringArg returns the first string literal (possibly the left operand of a `+`) passed to
// the first call of callee inside fn.
func firstStringArg(fn *ast.FuncDecl, callee string) string {
	res := ""
	if fn == nil {
		return res
	}
	ast.Inspect(fn.Body, func(n ast.Node) bool {
		ce, ok := n.(*ast.CallExpr)
		if !ok || res != "" {
			return true
		}
		if se, ok := ce.Fun.(*ast.SelectorExpr); ok && se.Sel.Name == callee && len(ce.Args) > 0 {
			e := ce.Args[0]
			for {
				if be, ok := e.(*ast.BinaryExpr); ok {
					e = be.X
					continue
				}
				break
			}
			if bl, ok := e.(*ast.BasicLit); ok && bl.Kind == token.STRING {
				res, _ = strconv.Unquote(bl.Value)
			}
		}
		return true
	})
	return res
}

// ---- C17: accesses to process-wide maps and the lock held at each --------------------------------------

type watched struct{ file, expr, lock string }

// exprText renders identifiers and selector chains ("f.mutex", "lastUpdatedCache"); anything else is "".
func exprText(e ast.Expr) string {
	switch t := e.(type) {
	case *ast.Ident:
		return t.Name
	case *ast.SelectorExpr:
		if x := exprText(t.X); x != "" {
			return x + "." + t.Sel.Name
		}
	case *ast.CallExpr:
		// the callee only: `a.b(c)` reads as `a.b()`
		if x := exprText(t.Fun); x != "" {
			return x + "()"
		}
	}
	return ""
}

type access struct{ Map, Func, Kind, Lock string }

// scanAccesses walks one function body in source order (function literals are scanned on their own, with a fresh
// lock state), tracking `<lock>.Lock/RLock/Unlock/RUnlock()` calls and recording every use of the watched expression.
func scanAccesses(fname string, body *ast.BlockStmt, w watched, out *[]access) {
	state := "none"
	var lits []*ast.FuncLit
	writes := map[ast.Node]bool{}
	// first pass: mark the nodes that are written through
	ast.Inspect(body, func(n ast.Node) bool {
		switch t := n.(type) {
		case *ast.AssignStmt:
			for _, l := range t.Lhs {
				if ix, ok := l.(*ast.IndexExpr); ok && exprText(ix.X) == w.expr {
					writes[ix.X] = true
				}
				if exprText(l) == w.expr {
					writes[l] = true
				}
			}
		case *ast.CallExpr:
			if id, ok := t.Fun.(*ast.Ident); ok && id.Name == "delete" && len(t.Args) > 0 && exprText(t.Args[0]) == w.expr {
				writes[t.Args[0]] = true
			}
			if sel, ok := t.Fun.(*ast.SelectorExpr); ok && exprText(sel.X) == w.expr && sel.Sel.Name == "Set" {
				writes[sel.X] = true
			}
		}
		return true
	})
	var walk func(n ast.Node) bool
	walk = func(n ast.Node) bool {
		switch t := n.(type) {
		case *ast.FuncLit:
			lits = append(lits, t)
			return false
		case *ast.DeferStmt:
			// a deferred unlock keeps the lock until the function returns
			if sel, ok := t.Call.Fun.(*ast.SelectorExpr); ok && exprText(sel.X) == w.lock {
				return false
			}
		case *ast.CallExpr:
			if sel, ok := t.Fun.(*ast.SelectorExpr); ok && exprText(sel.X) == w.lock {
				switch sel.Sel.Name {
				case "Lock":
					state = "w"
				case "RLock":
					state = "r"
				case "Unlock", "RUnlock":
					state = "none"
				}
				return false
			}
		case *ast.SelectorExpr, *ast.Ident:
			if exprText(t.(ast.Expr)) == w.expr {
				kind := "read"
				if writes[n] {
					kind = "write"
				}
				*out = append(*out, access{w.expr, fname, kind, state})
				return false
			}
		case *ast.KeyValueExpr:
			// a composite-literal key is a field name, not an access
			ast.Inspect(t.Value, walk)
			return false
		}
		return true
	}
	ast.Inspect(body, walk)
	for i, l := range lits {
		scanAccesses(fmt.Sprintf("%s.func%d", fname, i+1), l.Body, w, out)
	}
}

func accessFacts(repo string) []access {
	ws := []watched{
		{"pkg/controller/common/manage_children.go", "lastUpdatedCache", "cacheLock"},
		{"pkg/dynamic/informer/factory.go", "f.refCount", "f.mutex"},
		{"pkg/dynamic/informer/factory.go", "f.sharedInformers", "f.mutex"},
		{"pkg/dynamic/informer/informer.go", "seh.handlers", "seh.mutex"},
		{"pkg/controller/common/customize/manager.go", "rm.relatedInformers", "rm.relatedInformersLock"},
	}
	var out []access
	for _, w := range ws {
		f := parse(repo, w.file)
		for _, d := range f.Decls {
			fd, ok := d.(*ast.FuncDecl)
			if !ok || fd.Body == nil {
				continue
			}
			// constructors build the value before it is shared
			if strings.HasPrefix(fd.Name.Name, "New") || strings.HasPrefix(fd.Name.Name, "new") {
				continue
			}
			scanAccesses(fd.Name.Name, fd.Body, w, &out)
		}
	}
	return out
}

// methodSwitch reads the `switch method := ...GetMethod(...)` of updateChildren: per case clause the method names it
// lists (constants of the API package resolved to their string values, "" kept), the client verbs called in the clause
// (Create / Update / Delete on the resource client) and the apierrors predicates tested in it (the swallowed errors).
func methodSwitch(fn *ast.FuncDecl, consts map[string]string) []string {
	var out []string
	if fn == nil {
		return out
	}
	ast.Inspect(fn.Body, func(n ast.Node) bool {
		sw, ok := n.(*ast.SwitchStmt)
		if !ok || sw.Init == nil {
			return true
		}
		as, ok := sw.Init.(*ast.AssignStmt)
		if !ok || len(as.Rhs) != 1 || !strings.Contains(exprText(as.Rhs[0]), "GetMethod") {
			return true
		}
		for _, st := range sw.Body.List {
			cc := st.(*ast.CaseClause)
			var names []string
			if cc.List == nil {
				names = append(names, "<default>")
			}
			for _, e := range cc.List {
				switch t := e.(type) {
				case *ast.BasicLit:
					v, _ := strconv.Unquote(t.Value)
					names = append(names, v)
				case *ast.SelectorExpr:
					if v, ok := consts[t.Sel.Name]; ok {
						names = append(names, v)
					} else {
						names = append(names, "?"+t.Sel.Name)
					}
				default:
					names = append(names, "?"+exprText(e))
				}
			}
			var verbs, preds []string
			for _, b := range cc.Body {
				ast.Inspect(b, func(m ast.Node) bool {
					ce, ok := m.(*ast.CallExpr)
					if !ok {
						return true
					}
					if se, ok := ce.Fun.(*ast.SelectorExpr); ok {
						switch se.Sel.Name {
						case "Create", "Update", "Delete", "Patch", "UpdateStatus":
							if strings.Contains(exprText(se.X), "client") {
								verbs = append(verbs, se.Sel.Name)
							}
						}
						if id, ok := se.X.(*ast.Ident); ok && id.Name == "apierrors" {
							preds = append(preds, se.Sel.Name)
						}
					}
					return true
				})
			}
			out = append(out, fmt.Sprintf("(%s, %s, %s)", leanList(names), leanList(verbs), leanList(preds)))
		}
		return false
	})
	return out
}

// stringConsts: every `Name Type = "value"` constant of a file.
func stringConsts(f *ast.File) map[string]string {
	out := map[string]string{}
	ast.Inspect(f, func(n ast.Node) bool {
		vs, ok := n.(*ast.ValueSpec)
		if !ok {
			return true
		}
		for i, id := range vs.Names {
			if i < len(vs.Values) {
				if bl, ok := vs.Values[i].(*ast.BasicLit); ok && bl.Kind == token.STRING {
					v, _ := strconv.Unquote(bl.Value)
					out[id.Name] = v
				}
			}
		}
		return true
	})
	return out
}

// apierrorUses: every use of an `apierrors.IsX` predicate, as (file, function, predicate) in source order.
func apierrorUses(repo string, files []string) []string {
	var out []string
	for _, rel := range files {
		f := parse(repo, rel)
		// the name under which this file imports k8s.io/apimachinery/pkg/api/errors
		alias := ""
		for _, im := range f.Imports {
			if strings.Trim(im.Path.Value, "\"") == "k8s.io/apimachinery/pkg/api/errors" {
				alias = "errors"
				if im.Name != nil {
					alias = im.Name.Name
				}
			}
		}
		if alias == "" {
			continue
		}
		where := filepath.Base(filepath.Dir(rel)) + "/" + filepath.Base(rel)
		for _, d := range f.Decls {
			fd, ok := d.(*ast.FuncDecl)
			if !ok || fd.Body == nil {
				continue
			}
			ast.Inspect(fd.Body, func(n ast.Node) bool {
				ce, ok := n.(*ast.CallExpr)
				if !ok {
					return true
				}
				if se, ok := ce.Fun.(*ast.SelectorExpr); ok {
					if id, ok := se.X.(*ast.Ident); ok && id.Name == alias && strings.HasPrefix(se.Sel.Name, "Is") {
						out = append(out, fmt.Sprintf("(%s, %s, %s)", leanStr(where), leanStr(fd.Name.Name), leanStr(se.Sel.Name)))
					}
				}
				return true
			})
		}
	}
	return out
}

func main() {
	repo := "/repo"
	if len(os.Args) > 1 {
		repo = os.Args[1]
	}
	apply := parse(repo, "pkg/dynamic/apply/apply.go")
	manage := parse(repo, "pkg/controller/common/manage_children.go")
	deco := parse(repo, "pkg/controller/decorator/controller.go")
	comp := parse(repo, "pkg/controller/composite/controller.go")
	rev := parse(repo, "pkg/controller/composite/controller_revision.go")

	var b strings.Builder
	w := func(format string, a ...interface{}) { fmt.Fprintf(&b, format, a...) }
	w("-- GENERATED by /verif/tools/extract from the metacontroller working tree on every run. Do not edit.\n")
	w("namespace Mc.Generated\n")
	w("def knownMergeKeys : List String := %s\n", leanList(stringSliceVar(apply, "knownMergeKeys")))
	w("def objectMetaSystemFields : List String := %s\n", leanList(stringSliceVar(manage, "objectMetaSystemFields")))
	w("def lastAppliedAnnotation : String := %s\n", leanStr(stringConst(apply, "LastAppliedAnnotation")))
	w("def decoratorAnnotation : String := %s\n", leanStr(stringConst(deco, "decoratorControllerAnnotation")))
	w("def labelKeyAPIGroup : String := %s\n", leanStr(stringConst(rev, "labelKeyAPIGroup")))
	w("def labelKeyResource : String := %s\n", leanStr(stringConst(rev, "labelKeyResource")))
	w("def compositeFinalizerPrefix : String := %s\n", leanStr(firstStringArg(funcDecl(comp, "newParentController"), "NewManager")))
	w("def decoratorFinalizerPrefix : String := %s\n", leanStr(firstStringArg(funcDecl(deco, "newDecoratorController"), "NewManager")))
	// C09: order of the phases inside the composite sync
	order := callsInOrder(funcDecl(comp, "syncParentObject"), map[string]bool{
		"SyncObject": true, "claimChildren": true, "GetRelatedObjects": true, "syncRevisions": true,
		"RemoveFinalizer": true, "ManageChildren": true, "updateParentStatus": true})
	w("def compositeSyncOrder : List String := %s\n", leanList(order))
	order2 := callsInOrder(funcDecl(rev, "syncRevisions"), map[string]bool{
		"claimRevisions": true, "callHook": true, "syncRollingUpdate": true, "pruneParentRevisions": true,
		"manageRevisions": true, "ReplaceObjectIfExists": true})
	w("def syncRevisionsOrder : List String := %s\n", leanList(order2))
	order3 := callsInOrder(funcDecl(deco, "syncParentObject"), map[string]bool{
		"SyncObject": true, "getChildren": true, "GetRelatedObjects": true, "callHook": true,
		"UpdateStatus": true, "Update": true, "ManageChildren": true})
	w("def decoratorSyncOrder : List String := %s\n", leanList(order3))
	// C17: (shared map, function, read|write, lock held: none|r|w)
	var facts []string
	for _, a := range accessFacts(repo) {
		lock := map[string]int{"none": 0, "r": 1, "w": 2}[a.Lock]
		facts = append(facts, fmt.Sprintf("(%s, %s, %v, %d)", leanStr(a.Map), leanStr(a.Func), a.Kind == "write", lock))
	}
	// (shared map, function, is a write, lock held: 0 none / 1 read lock / 2 exclusive lock)
	w("def sharedMapAccesses : List (String × String × Bool × Nat) := [%s]\n", strings.Join(facts, ", "))
	// C06: the strategy switch of updateChildren: (method names of the case, client verbs called in it, apierrors predicates tested in it)
	types := parse(repo, "pkg/apis/metacontroller/v1alpha1/types.go")
	w("def updateMethodSwitch : List (List String × List String × List String) := [%s]\n",
		strings.Join(methodSwitch(funcDecl(manage, "updateChildren"), stringConsts(types)), ", "))
	// C12: which API error kinds are tested (tolerated / classified) where: (file, function, predicate) in source order
	w("def apierrorUses : List (String × String × String) := [%s]\n", strings.Join(apierrorUses(repo, []string{
		"pkg/controller/common/manage_children.go", "pkg/controller/composite/controller.go", "pkg/controller/composite/controller_revision.go",
		"pkg/controller/composite/rolling_update.go", "pkg/controller/decorator/controller.go", "pkg/dynamic/controllerref/unstructured.go",
		"pkg/dynamic/controllerref/controller_revision.go", "pkg/controller/common/finalizer/finalizer.go", "pkg/dynamic/clientset/clientset.go",
		"pkg/controller/common/customize/manager.go", "pkg/third_party/kubernetes/controller_ref_manager.go"}), ", "))
	w("end Mc.Generated\n")
	fmt.Print(b.String())
}
