module extract

go 1.23
